#!/bin/bash
# run_all.sh [quick|thorough]  — runs every claimed check in turn; prints one line each
tier=${1:-quick}
cd "$(dirname "$0")"
rc=0
for id in $(python3 -c "import json;print(' '.join(c['property_id'] for c in json.load(open('MANIFEST.json'))['checks']))"); do
  out=$(./check $id $tier 2>&1 | grep -v conda)
  code=$?
  echo "$id: $(echo "$out" | grep -E "^pbsim: $id|^VIOLATION|^KNOWN-FINDING" | cut -c1-220 | tr '\n' ' ')"
  echo "$out" | grep -q "^VIOLATION" && rc=1
done
exit $rc
