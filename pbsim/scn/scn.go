// Package scn defines the scenario (= replay file) format shared by the
// worker and the driver, the outcome format, and the generic shrinker's
// candidate generator. It depends on nothing that needs the overlay.
package scn

import (
	"encoding/json"
	"os"
)

// Decision mirrors simcore.Decision.
type Decision struct {
	CP int64 `json:"cp"`
	To int   `json:"to"`
}

// Sched is the scheduling strategy of a phase.
type Sched struct {
	Kind     string `json:"kind"` // "tape", "random", "pct"
	Stay     uint32 `json:"stay,omitempty"`
	Depth    int    `json:"depth,omitempty"`
	SiteBias bool   `json:"sitebias,omitempty"`
	Seed     uint64 `json:"seed,omitempty"`
}

// Op is one operation of a client script. The meaning of the generic
// argument fields is defined by the workload.
type Op struct {
	Op   string  `json:"op"`
	Obj  int     `json:"obj,omitempty"`
	Path []int32 `json:"path,omitempty"`
	N    int64   `json:"n,omitempty"`
	M    int64   `json:"m,omitempty"`
	S    string  `json:"s,omitempty"`
	B    []byte  `json:"b,omitempty"`
	Flag bool    `json:"flag,omitempty"`
}

// Phase is a set of clients that run concurrently under the scheduler. A
// phase with one client is sequential.
type Phase struct {
	Name    string     `json:"name,omitempty"`
	Clients [][]Op     `json:"clients"`
	Sched   Sched      `json:"sched"`
	Tape    []Decision `json:"tape,omitempty"`
}

// Object is something the scenario operates on (a message, a stream, a file).
type Object struct {
	Type  string `json:"type,omitempty"`
	Mode  string `json:"mode,omitempty"`
	Wire  []byte `json:"wire,omitempty"`
	Seed  uint64 `json:"seed,omitempty"`
	Size  int    `json:"size,omitempty"`
	Depth int    `json:"depth,omitempty"`
	Note  string `json:"note,omitempty"`
}

// Fault is an injected fault.
type Fault struct {
	Kind string `json:"kind"`
	Obj  int    `json:"obj,omitempty"`
	At   int64  `json:"at,omitempty"`
	N    int64  `json:"n,omitempty"`
	How  string `json:"how,omitempty"`
}

// Scn is a scenario: everything a run depends on besides the tree.
type Scn struct {
	Property string           `json:"property"`
	Seed     uint64           `json:"seed"`
	Tier     string           `json:"tier,omitempty"`
	Tags     []string         `json:"tags,omitempty"`
	Race     bool             `json:"race"`
	MapSeed  uint64           `json:"mapseed"`
	Mode     string           `json:"mode,omitempty"`
	NoDryRun bool             `json:"no_dry_run,omitempty"` // first-use scenarios (C19): the first execution is the point
	Objects  []Object         `json:"objects,omitempty"`
	Phases   []Phase          `json:"phases,omitempty"`
	Faults   []Fault          `json:"faults,omitempty"`
	P        map[string]int64 `json:"params,omitempty"`
	Data     json.RawMessage  `json:"data,omitempty"` // workload-specific structure (e.g. the C33 universe)
	Expect   *Violation       `json:"expect,omitempty"`
}

// Violation describes a failed invariant.
type Violation struct {
	Class  string `json:"class"`  // stable identifier used for shrinking and known-finding matching
	Detail string `json:"detail"` // human readable
}

// Outcome is the result of executing one scenario.
type Outcome struct {
	Violation *Violation       `json:"violation,omitempty"`
	TraceHash uint64           `json:"trace_hash"`
	SigHash   uint64           `json:"sig_hash"`
	Steps     int64            `json:"steps"`
	Evals     int64            `json:"evals,omitempty"` // sub-evaluations (e.g. one per truncation point)
	Switches  int64            `json:"switches"`
	SwitchIn  int64            `json:"switches_in_op"`
	Faults    map[string]int64 `json:"faults,omitempty"`
	Probes    map[string]int64 `json:"probes,omitempty"`
	Keys      []uint64         `json:"keys,omitempty"` // distinct non-trivial case keys
	Trace     []string         `json:"trace,omitempty"`
	Tapes     [][]Decision     `json:"tapes,omitempty"` // recorded schedule per phase (replay mode)
}

func Load(path string) (*Scn, error) {
	b, err := os.ReadFile(path)
	if err != nil {
		return nil, err
	}
	s := new(Scn)
	if err := json.Unmarshal(b, s); err != nil {
		return nil, err
	}
	return s, nil
}

func (s *Scn) Save(path string) error {
	b, err := json.MarshalIndent(s, "", " ")
	if err != nil {
		return err
	}
	return os.WriteFile(path, append(b, '\n'), 0o644)
}

func (s *Scn) Clone() *Scn {
	b, _ := json.Marshal(s)
	c := new(Scn)
	json.Unmarshal(b, c)
	return c
}

// Size is the measure the shrinker minimises.
func (s *Scn) Size() int {
	n := len(s.Faults)*3 + len(s.Objects)
	for _, o := range s.Objects {
		n += len(o.Wire)/8 + o.Size
	}
	for _, p := range s.Phases {
		n += 5 + len(p.Tape)
		for _, c := range p.Clients {
			n += 3 + 2*len(c)
			for _, op := range c {
				n += len(op.B)/8 + len(op.Path)
			}
		}
	}
	return n
}

// Candidates returns scenarios that are smaller than s in one step, most
// aggressive first. Workloads must tolerate any candidate (ops referring to
// objects or state that no longer exist are skipped by the executor).
func (s *Scn) Candidates() []*Scn {
	var out []*Scn
	add := func(f func(c *Scn) bool) {
		c := s.Clone()
		if f(c) {
			c.Expect = nil
			out = append(out, c)
		}
	}
	// Convert generated schedules into explicit tapes first (the recorded tape
	// is already stored by the worker, so Kind is "tape" here normally).
	// Drop phases from the end.
	for i := len(s.Phases) - 1; i >= 0; i-- {
		i := i
		if len(s.Phases) > 1 {
			add(func(c *Scn) bool { c.Phases = append(c.Phases[:i], c.Phases[i+1:]...); return true })
		}
	}
	for pi := range s.Phases {
		pi := pi
		ph := s.Phases[pi]
		// drop a client
		if len(ph.Clients) > 1 {
			for ci := range ph.Clients {
				ci := ci
				add(func(c *Scn) bool {
					p := &c.Phases[pi]
					p.Clients = append(p.Clients[:ci], p.Clients[ci+1:]...)
					// tape entries referring to clients shift; simplest is to drop the tape
					var t []Decision
					for _, d := range p.Tape {
						if d.To == ci {
							continue
						}
						if d.To > ci {
							d.To--
						}
						t = append(t, d)
					}
					p.Tape = t
					return true
				})
			}
		}
		// drop halves / single ops
		for ci := range ph.Clients {
			ci := ci
			n := len(ph.Clients[ci])
			if n > 3 {
				add(func(c *Scn) bool { p := &c.Phases[pi]; p.Clients[ci] = p.Clients[ci][:n/2]; return true })
				add(func(c *Scn) bool { p := &c.Phases[pi]; p.Clients[ci] = p.Clients[ci][n/2:]; return true })
			}
			for oi := n - 1; oi >= 0; oi-- {
				oi := oi
				add(func(c *Scn) bool {
					p := &c.Phases[pi]
					p.Clients[ci] = append(p.Clients[ci][:oi:oi], p.Clients[ci][oi+1:]...)
					return true
				})
			}
		}
		// schedule: drop everything, halves, single decisions
		if nt := len(ph.Tape); nt > 0 {
			add(func(c *Scn) bool { c.Phases[pi].Tape = nil; return true })
			if nt > 3 {
				add(func(c *Scn) bool { c.Phases[pi].Tape = c.Phases[pi].Tape[:nt/2]; return true })
				add(func(c *Scn) bool { c.Phases[pi].Tape = c.Phases[pi].Tape[nt/2:]; return true })
			}
			if nt <= 64 {
				for ti := nt - 1; ti >= 0; ti-- {
					ti := ti
					add(func(c *Scn) bool {
						t := c.Phases[pi].Tape
						c.Phases[pi].Tape = append(t[:ti:ti], t[ti+1:]...)
						return true
					})
				}
			}
		}
	}
	for fi := len(s.Faults) - 1; fi >= 0; fi-- {
		fi := fi
		add(func(c *Scn) bool { c.Faults = append(c.Faults[:fi:fi], c.Faults[fi+1:]...); return true })
	}
	for oi := range s.Objects {
		oi := oi
		o := s.Objects[oi]
		if o.Size > 1 {
			add(func(c *Scn) bool { c.Objects[oi].Size = o.Size / 2; return true })
			add(func(c *Scn) bool { c.Objects[oi].Size = o.Size - 1; return true })
		}
		if o.Depth > 1 {
			add(func(c *Scn) bool { c.Objects[oi].Depth = o.Depth - 1; return true })
		}
	}
	return out
}
