package work

// First use of "aberrant" legacy message types: Go struct types that carry only
// `protobuf:"..."` struct tags (no Descriptor method, no raw descriptor). Their
// message descriptors are derived from the Go type on first use and cached per
// Go type for the life of the process, so each type has one first use per
// process. In-process scenarios therefore manufacture fresh Go struct types with
// reflect.StructOf for every execution (a process-wide serial number in the Go
// field names keeps them distinct; Go field names do not reach the descriptor);
// process-mode scenarios use the hand-written cyclic types below.

import (
	"fmt"
	"reflect"
	"sync/atomic"

	"google.golang.org/protobuf/internal/impl"
	"google.golang.org/protobuf/proto"
	"google.golang.org/protobuf/reflect/protoreflect"
	"google.golang.org/protobuf/runtime/protoimpl"
	"google.golang.org/protobuf/zverifsim/sim"
)

var abSerial atomic.Uint64

// abField is one field of a manufactured aberrant type.
type abField struct {
	Kind  int // index into abKinds
	Num   int
	Name  string
	Child int // for message kinds: level of the child type
}

// abShape is one manufactured type: its fields, in struct order.
type abShape struct{ Fields []abField }

const (
	abI32 = iota
	abI64
	abStr
	abBytes
	abBool
	abF64
	abRepI32
	abRepStr
	abMap
	abMsg
	abRepMsg
	abNKinds
)

// abMakeShapes derives a chain of 1..3 types from the seed: level 0 is the outermost, each level
// may refer to deeper levels only (reflect.StructOf cannot build cycles).
func abMakeShapes(seed uint64) []abShape {
	r := sim.NewRng(seed | 1)
	n := r.Range(1, 3)
	shapes := make([]abShape, n)
	for l := n - 1; l >= 0; l-- {
		nf := r.Range(3, 12)
		num := 0
		for i := 0; i < nf; i++ {
			num += r.Range(1, 3)
			k := r.Intn(abNKinds)
			f := abField{Kind: k, Num: num, Name: fmt.Sprintf("f%d_%d", l, i)}
			if k == abMsg || k == abRepMsg {
				if l == n-1 {
					f.Kind = abI32
				} else {
					f.Child = r.Range(l+1, n-1)
				}
			}
			shapes[l].Fields = append(shapes[l].Fields, f)
		}
		if l < n-1 {
			// always at least one reference to the next level, placed anywhere
			i := r.Intn(len(shapes[l].Fields))
			shapes[l].Fields[i].Kind = abMsg
			shapes[l].Fields[i].Child = l + 1
		}
	}
	return shapes
}

// abBuildTypes manufactures the Go types (pointer-to-struct) for the shapes; never seen before by this process.
func abBuildTypes(shapes []abShape) []reflect.Type {
	serial := abSerial.Add(1)
	types := make([]reflect.Type, len(shapes))
	for l := len(shapes) - 1; l >= 0; l-- {
		var sf []reflect.StructField
		for i, f := range shapes[l].Fields {
			var t reflect.Type
			var tag string
			switch f.Kind {
			case abI32:
				t, tag = reflect.TypeOf((*int32)(nil)), fmt.Sprintf(`protobuf:"varint,%d,opt,name=%s"`, f.Num, f.Name)
			case abI64:
				t, tag = reflect.TypeOf((*int64)(nil)), fmt.Sprintf(`protobuf:"varint,%d,opt,name=%s"`, f.Num, f.Name)
			case abStr:
				t, tag = reflect.TypeOf((*string)(nil)), fmt.Sprintf(`protobuf:"bytes,%d,opt,name=%s"`, f.Num, f.Name)
			case abBytes:
				t, tag = reflect.TypeOf([]byte(nil)), fmt.Sprintf(`protobuf:"bytes,%d,opt,name=%s"`, f.Num, f.Name)
			case abBool:
				t, tag = reflect.TypeOf((*bool)(nil)), fmt.Sprintf(`protobuf:"varint,%d,opt,name=%s"`, f.Num, f.Name)
			case abF64:
				t, tag = reflect.TypeOf((*float64)(nil)), fmt.Sprintf(`protobuf:"fixed64,%d,opt,name=%s"`, f.Num, f.Name)
			case abRepI32:
				t, tag = reflect.TypeOf([]int32(nil)), fmt.Sprintf(`protobuf:"varint,%d,rep,name=%s"`, f.Num, f.Name)
			case abRepStr:
				t, tag = reflect.TypeOf([]string(nil)), fmt.Sprintf(`protobuf:"bytes,%d,rep,name=%s"`, f.Num, f.Name)
			case abMap:
				t = reflect.TypeOf(map[string]int32(nil))
				tag = fmt.Sprintf(`protobuf:"bytes,%d,rep,name=%s" protobuf_key:"bytes,1,opt,name=key" protobuf_val:"varint,2,opt,name=value"`, f.Num, f.Name)
			case abMsg:
				t, tag = types[f.Child], fmt.Sprintf(`protobuf:"bytes,%d,opt,name=%s"`, f.Num, f.Name)
			case abRepMsg:
				t, tag = reflect.SliceOf(types[f.Child]), fmt.Sprintf(`protobuf:"bytes,%d,rep,name=%s"`, f.Num, f.Name)
			}
			sf = append(sf, reflect.StructField{Name: fmt.Sprintf("X%d_%d_%d", serial, l, i), Type: t, Tag: reflect.StructTag(tag)})
		}
		types[l] = reflect.PointerTo(reflect.StructOf(sf))
	}
	return types
}

// abFill populates a value of a manufactured type, deterministically from n.
func abFill(v reflect.Value, shapes []abShape, types []reflect.Type, l int, n uint64, depth int) {
	r := sim.NewRng(n | 1)
	s := v.Elem()
	for i, f := range shapes[l].Fields {
		if r.Chance(1, 4) {
			continue
		}
		fv := s.Field(i)
		switch f.Kind {
		case abI32:
			x := int32(r.Intn(1 << 20))
			fv.Set(reflect.ValueOf(&x))
		case abI64:
			x := int64(r.U64() >> 3)
			fv.Set(reflect.ValueOf(&x))
		case abStr:
			x := fmt.Sprintf("s%d", r.Intn(1000))
			fv.Set(reflect.ValueOf(&x))
		case abBytes:
			fv.Set(reflect.ValueOf([]byte{byte(r.Intn(256)), 1, 2}))
		case abBool:
			x := r.Chance(1, 2)
			fv.Set(reflect.ValueOf(&x))
		case abF64:
			x := float64(r.Intn(1000)) / 8
			fv.Set(reflect.ValueOf(&x))
		case abRepI32:
			fv.Set(reflect.ValueOf([]int32{int32(r.Intn(100)), -1, int32(r.Intn(1 << 30))}))
		case abRepStr:
			fv.Set(reflect.ValueOf([]string{"a", fmt.Sprint(r.Intn(100))}))
		case abMap:
			fv.Set(reflect.ValueOf(map[string]int32{"k": int32(r.Intn(100)), fmt.Sprint("q", r.Intn(9)): 7}))
		case abMsg:
			if depth > 0 {
				c := reflect.New(types[f.Child].Elem())
				abFill(c, shapes, types, f.Child, r.U64(), depth-1)
				fv.Set(c)
			}
		case abRepMsg:
			if depth > 0 {
				sl := reflect.MakeSlice(fv.Type(), 0, 2)
				for k := 0; k < 2; k++ {
					c := reflect.New(types[f.Child].Elem())
					abFill(c, shapes, types, f.Child, r.U64(), depth-1)
					sl = reflect.Append(sl, c)
				}
				fv.Set(sl)
			}
		}
	}
}

// abDescDigest hashes what a user can see of a derived descriptor, except its (address-derived) full name.
func abDescDigest(h *hasher, md protoreflect.MessageDescriptor, depth int) {
	fs := md.Fields()
	h.u(uint64(fs.Len()))
	h.u(uint64(md.Oneofs().Len()))
	h.u(uint64(md.Syntax()))
	for i := 0; i < fs.Len(); i++ {
		fd := fs.Get(i)
		h.s(string(fd.Name()))
		h.s(fd.JSONName())
		h.u(uint64(fd.Number()))
		h.u(uint64(fd.Kind()))
		h.u(uint64(fd.Cardinality()))
		var bits uint64
		if fd.IsList() {
			bits |= 1
		}
		if fd.IsMap() {
			bits |= 2
		}
		if fd.HasPresence() {
			bits |= 4
		}
		if fd.IsPacked() {
			bits |= 8
		}
		if fs.ByNumber(fd.Number()) == fd {
			bits |= 16
		}
		if fs.ByName(fd.Name()) == fd {
			bits |= 32
		}
		if fs.ByJSONName(fd.JSONName()) == fd {
			bits |= 64
		}
		if fd.ContainingMessage() == md {
			bits |= 128
		}
		h.u(bits)
		if cm := fd.Message(); cm != nil && depth > 0 {
			abDescDigest(h, cm, depth-1)
		}
	}
}

// abCheckDesc compares a derived descriptor with the shape it was derived from (absolute oracle:
// holds whoever makes first use, and in which order).
func abCheckDesc(md protoreflect.MessageDescriptor, shapes []abShape, l int, depth int) string {
	fs := md.Fields()
	if fs.Len() != len(shapes[l].Fields) {
		return fmt.Sprintf("level %d: descriptor lists %d fields, the Go type declares %d", l, fs.Len(), len(shapes[l].Fields))
	}
	for i, f := range shapes[l].Fields {
		fd := fs.Get(i)
		if string(fd.Name()) != f.Name || int(fd.Number()) != f.Num {
			return fmt.Sprintf("level %d field %d: descriptor says %s=%d, the Go type declares %s=%d", l, i, fd.Name(), fd.Number(), f.Name, f.Num)
		}
		if fs.ByNumber(protoreflect.FieldNumber(f.Num)) != fd || fs.ByName(protoreflect.Name(f.Name)) != fd {
			return fmt.Sprintf("level %d field %s=%d: not found by number or by name in its own message", l, f.Name, f.Num)
		}
		if f.Kind == abMsg || f.Kind == abRepMsg {
			cm := fd.Message()
			if cm == nil {
				return fmt.Sprintf("level %d field %s: message-typed field without message descriptor", l, f.Name)
			}
			if depth > 0 {
				if e := abCheckDesc(cm, shapes, f.Child, depth-1); e != "" {
					return fmt.Sprintf("via level %d field %s: %s", l, f.Name, e)
				}
			}
		}
	}
	return ""
}

// abOp is one operation on a manufactured (or hand-written) aberrant type. what: "desc" or "roundtrip".
func abOp(x *sim.Exec, what string, shapes []abShape, types []reflect.Type, l int, n uint64) sim.OpResult {
	h := newHasher()
	// Manufactured types have no methods, so the public wrappers (which demand a v1 message) refuse
	// the outermost one: its MessageInfo is put together here the way legacyLoadMessageInfo does,
	// over the descriptor the real first-use path derives. The types nested in it are wrapped by the
	// library itself (message converters -> legacyWrapMessage -> the per-type caches).
	md := impl.LegacyLoadMessageDesc(types[l])
	mi := &impl.MessageInfo{Desc: md, GoReflectType: types[l]}
	v := reflect.New(types[l].Elem())
	var m proto.Message = pmsg{mi.MessageOf(v.Interface())}
	if e := abCheckDesc(md, shapes, l, 3); e != "" {
		x.Fail("aberrant-descriptor-incomplete", "first use of a legacy struct type without descriptor: %s", e)
		return sim.OpResult{}
	}
	abDescDigest(h, md, 3)
	if what == "roundtrip" {
		abFill(v, shapes, types, l, n, 2)
		b, err := proto.MarshalOptions{Deterministic: true, AllowPartial: true}.Marshal(m)
		if err != nil {
			h.s(err.Error())
		}
		h.b(b)
		h.u(uint64(proto.Size(m)))
		v2 := reflect.New(types[l].Elem())
		var m2 proto.Message = pmsg{mi.MessageOf(v2.Interface())}
		if err := (proto.UnmarshalOptions{AllowPartial: true}).Unmarshal(b, m2); err != nil {
			h.s(err.Error())
		}
		b2, _ := proto.MarshalOptions{Deterministic: true, AllowPartial: true}.Marshal(m2)
		if string(b) != string(b2) {
			x.Fail("aberrant-roundtrip", "legacy struct type without descriptor, level %d: re-encoding the decoded message gives %d bytes, the original encoding had %d", l, len(b2), len(b))
			return sim.OpResult{}
		}
		// every populated field must be visible through reflection
		cnt := 0
		m2.ProtoReflect().Range(func(protoreflect.FieldDescriptor, protoreflect.Value) bool { cnt++; return true })
		h.u(uint64(cnt))
	}
	return sim.OpResult{Digest: h.h}
}

// ---- hand-written aberrant types for process mode (one first use per process) ----

type abEnum int32

type AbLeaf struct {
	A *int32   `protobuf:"varint,1,opt,name=a"`
	B *int64   `protobuf:"varint,2,opt,name=b"`
	C *string  `protobuf:"bytes,3,opt,name=c"`
	D []int32  `protobuf:"varint,4,rep,name=d"`
	E *bool    `protobuf:"varint,5,opt,name=e"`
	F *float64 `protobuf:"fixed64,6,opt,name=f"`
	G []byte   `protobuf:"bytes,7,opt,name=g"`
	H *abEnum  `protobuf:"varint,8,opt,name=h,enum=pbsim.AbEnum"`
}

func (*AbLeaf) Reset()         {}
func (*AbLeaf) String() string { return "AbLeaf" }
func (*AbLeaf) ProtoMessage()  {}

type AbNode struct {
	Self  *AbNode          `protobuf:"bytes,1,opt,name=self"`
	Peer  *AbPeer          `protobuf:"bytes,2,opt,name=peer"`
	Leaf  *AbLeaf          `protobuf:"bytes,3,opt,name=leaf"`
	Kids  []*AbNode        `protobuf:"bytes,4,rep,name=kids"`
	Index map[string]int32 `protobuf:"bytes,5,rep,name=index" protobuf_key:"bytes,1,opt,name=key" protobuf_val:"varint,2,opt,name=value"`
	N1    *int32           `protobuf:"varint,6,opt,name=n1"`
	N2    *int32           `protobuf:"varint,7,opt,name=n2"`
	N3    *string          `protobuf:"bytes,8,opt,name=n3"`
}

func (*AbNode) Reset()         {}
func (*AbNode) String() string { return "AbNode" }
func (*AbNode) ProtoMessage()  {}

type AbPeer struct {
	Node *AbNode `protobuf:"bytes,1,opt,name=node"`
	P1   *int32  `protobuf:"varint,2,opt,name=p1"`
	P2   *string `protobuf:"bytes,3,opt,name=p2"`
	Leaf *AbLeaf `protobuf:"bytes,4,opt,name=leaf"`
}

func (*AbPeer) Reset()         {}
func (*AbPeer) String() string { return "AbPeer" }
func (*AbPeer) ProtoMessage()  {}

var abHandFields = map[string]int{"AbLeaf": 8, "AbNode": 8, "AbPeer": 4}

// abHandOp makes (possibly first) use of one of the hand-written aberrant types.
func abHandOp(n int64) (res sim.OpResult, bad string) {
	h := newHasher()
	i32 := func(v int32) *int32 { return &v }
	str := func(v string) *string { return &v }
	e := abEnum(2)
	leaf := &AbLeaf{A: i32(int32(n % 1000)), C: str("leaf"), D: []int32{1, 2, 3}, H: &e}
	node := &AbNode{Leaf: leaf, N1: i32(5), N3: str("n3"), Index: map[string]int32{"a": 1, "b": 2}}
	node.Kids = []*AbNode{{N2: i32(9), Peer: &AbPeer{P1: i32(3), Leaf: leaf}}}
	node.Self = &AbNode{N1: i32(1)}
	peer := &AbPeer{Node: node, P2: str("p2"), Leaf: leaf}
	var v any
	switch n % 3 {
	case 0:
		v = node
	case 1:
		v = peer
	default:
		v = leaf
	}
	m := protoimpl.X.ProtoMessageV2Of(v)
	md := m.ProtoReflect().Descriptor()
	var walk func(md protoreflect.MessageDescriptor, depth int)
	walk = func(md protoreflect.MessageDescriptor, depth int) {
		name := reflect.TypeOf(v).Elem().Name()
		_ = name
		fs := md.Fields()
		for i := 0; i < fs.Len(); i++ {
			fd := fs.Get(i)
			if fs.ByNumber(fd.Number()) != fd || fs.ByName(fd.Name()) != fd {
				bad = fmt.Sprintf("field %s of %s not found by number or name in its own message", fd.Name(), md.FullName())
			}
			if cm := fd.Message(); cm != nil && !fd.IsMap() && depth > 0 {
				short := string(cm.Name())
				if want, ok := abHandFields[short]; ok && cm.Fields().Len() != want {
					bad = fmt.Sprintf("descriptor of %s (reached through %s) lists %d fields, the Go type declares %d", short, fd.FullName(), cm.Fields().Len(), want)
				}
				walk(cm, depth-1)
			}
		}
	}
	if want := abHandFields[string(md.Name())]; md.Fields().Len() != want {
		bad = fmt.Sprintf("descriptor of %s lists %d fields, the Go type declares %d", md.Name(), md.Fields().Len(), want)
	}
	walk(md, 3)
	abDescDigest(h, md, 3)
	b, err := proto.MarshalOptions{Deterministic: true, AllowPartial: true}.Marshal(m)
	if err != nil {
		h.s(err.Error())
	}
	h.b(b)
	h.u(uint64(proto.Size(m)))
	return sim.OpResult{Digest: h.h}, bad
}
