package work

import (
	"bytes"
	"flag"
	"fmt"
	"os"
	"os/exec"
	"sort"
	"strings"

	gengo "google.golang.org/protobuf/cmd/protoc-gen-go/internal_gengo"
	"google.golang.org/protobuf/compiler/protogen"
	"google.golang.org/protobuf/encoding/protowire"
	"google.golang.org/protobuf/proto"
	"google.golang.org/protobuf/reflect/protodesc"
	"google.golang.org/protobuf/reflect/protoreflect"
	"google.golang.org/protobuf/reflect/protoregistry"
	"google.golang.org/protobuf/types/descriptorpb"
	"google.golang.org/protobuf/types/gofeaturespb"
	"google.golang.org/protobuf/types/pluginpb"
	"google.golang.org/protobuf/zverifsim/scn"
	"google.golang.org/protobuf/zverifsim/sim"
)

// C40 — code generation is deterministic.
//
// Under the simulator's control: the iteration order and hash seeds of every
// Go map inside the generator (runtime seam), the order in which files are
// requested, and the process boundary (the real protoc-gen-go binary, built
// from the working tree with the runtime seam, started afresh with different
// map seeds; request on stdin, response from stdout).
type c40 struct{}

func init() { sim.Register(c40{}) }

func (c40) ID() string { return "C40" }

var c40Files []string // paths of linked files, sorted
var c40Protos map[string]*descriptorpb.FileDescriptorProto

func c40Load() {
	if c40Protos != nil {
		return
	}
	c40Protos = map[string]*descriptorpb.FileDescriptorProto{}
	protoregistry.GlobalFiles.RangeFiles(func(fd protoreflect.FileDescriptor) bool {
		p := protodesc.ToFileDescriptorProto(fd)
		if p.GetOptions().GetGoPackage() == "" {
			return true
		}
		c40Protos[fd.Path()] = p
		return true
	})
	for _, fp := range c40Synthetic() {
		c40Protos[fp.GetName()] = fp
		c40SynthFiles = append(c40SynthFiles, fp.GetName())
	}
	sort.Strings(c40SynthFiles)
	for p := range c40Protos {
		c40Files = append(c40Files, p)
	}
	sort.Strings(c40Files)
}

var c40SynthFiles []string

// c40Synthetic builds request files nothing links in: custom options declared by the request's own
// files, with the option values attached as unknown fields of the options messages — which is how
// protoc hands them to a plugin that does not have the extensions compiled in.
//   - pbsim/c40/<x>/<x>.proto (x = alpha, beta, gamma): declares a scalar field option and uses it in the
//     same file on a field that also sets a standard option;
//   - pbsim/c40/opts/opts.proto declares a message-typed message option (six scalar fields and a map), a
//     scalar message option and a field option; pbsim/c40/use/use.proto and use2.proto use them.
func c40Synthetic() []*descriptorpb.FileDescriptorProto {
	opt := descriptorpb.FieldDescriptorProto_LABEL_OPTIONAL.Enum()
	rep := descriptorpb.FieldDescriptorProto_LABEL_REPEATED.Enum()
	i32 := descriptorpb.FieldDescriptorProto_TYPE_INT32.Enum()
	str := descriptorpb.FieldDescriptorProto_TYPE_STRING.Enum()
	msgT := descriptorpb.FieldDescriptorProto_TYPE_MESSAGE.Enum()
	unknownVarint := func(num protowire.Number, v uint64) []byte {
		return protowire.AppendVarint(protowire.AppendTag(nil, num, protowire.VarintType), v)
	}
	var out []*descriptorpb.FileDescriptorProto
	for i, x := range []string{"alpha", "beta", "gamma"} {
		num := int32(50101 + 100*i)
		fo := &descriptorpb.FieldOptions{Deprecated: proto.Bool(true)}
		fo.ProtoReflect().SetUnknown(unknownVarint(protowire.Number(num), 7))
		mo := &descriptorpb.MessageOptions{Deprecated: proto.Bool(i == 1)}
		out = append(out, &descriptorpb.FileDescriptorProto{
			Name: proto.String("pbsim/c40/" + x + "/" + x + ".proto"), Package: proto.String("pbsim.c40." + x), Syntax: proto.String("proto2"),
			Dependency: []string{"google/protobuf/descriptor.proto"},
			Options:    &descriptorpb.FileOptions{GoPackage: proto.String("example.com/pbsim/c40/" + x)},
			Extension:  []*descriptorpb.FieldDescriptorProto{{Name: proto.String(x + "_opt"), Number: proto.Int32(num), Label: opt, Type: i32, Extendee: proto.String(".google.protobuf.FieldOptions")}},
			MessageType: []*descriptorpb.DescriptorProto{{Name: proto.String("Msg"), Options: mo, Field: []*descriptorpb.FieldDescriptorProto{
				{Name: proto.String("f"), Number: proto.Int32(1), Label: opt, Type: i32, Options: fo},
				{Name: proto.String("g"), Number: proto.Int32(2), Label: opt, Type: str}}}},
		})
	}
	meta := &descriptorpb.DescriptorProto{Name: proto.String("Meta"), Field: []*descriptorpb.FieldDescriptorProto{
		{Name: proto.String("owner"), Number: proto.Int32(1), Label: opt, Type: str}, {Name: proto.String("tier"), Number: proto.Int32(2), Label: opt, Type: i32},
		{Name: proto.String("team"), Number: proto.Int32(3), Label: opt, Type: str}, {Name: proto.String("quota"), Number: proto.Int32(4), Label: opt, Type: i32},
		{Name: proto.String("region"), Number: proto.Int32(5), Label: opt, Type: str}, {Name: proto.String("rank"), Number: proto.Int32(6), Label: opt, Type: i32},
		{Name: proto.String("labels"), Number: proto.Int32(7), Label: rep, Type: msgT, TypeName: proto.String(".pbsim.c40.opts.Meta.LabelsEntry")}},
		NestedType: []*descriptorpb.DescriptorProto{{Name: proto.String("LabelsEntry"), Options: &descriptorpb.MessageOptions{MapEntry: proto.Bool(true)}, Field: []*descriptorpb.FieldDescriptorProto{
			{Name: proto.String("key"), Number: proto.Int32(1), Label: opt, Type: str}, {Name: proto.String("value"), Number: proto.Int32(2), Label: opt, Type: str}}}}}
	out = append(out, &descriptorpb.FileDescriptorProto{
		Name: proto.String("pbsim/c40/opts/opts.proto"), Package: proto.String("pbsim.c40.opts"), Syntax: proto.String("proto2"),
		Dependency:  []string{"google/protobuf/descriptor.proto"},
		Options:     &descriptorpb.FileOptions{GoPackage: proto.String("example.com/pbsim/c40/opts")},
		MessageType: []*descriptorpb.DescriptorProto{meta},
		Extension: []*descriptorpb.FieldDescriptorProto{
			{Name: proto.String("meta"), Number: proto.Int32(50001), Label: opt, Type: msgT, TypeName: proto.String(".pbsim.c40.opts.Meta"), Extendee: proto.String(".google.protobuf.MessageOptions")},
			{Name: proto.String("level"), Number: proto.Int32(50002), Label: opt, Type: i32, Extendee: proto.String(".google.protobuf.MessageOptions")},
			{Name: proto.String("tag"), Number: proto.Int32(50003), Label: opt, Type: i32, Extendee: proto.String(".google.protobuf.FieldOptions")}},
	})
	metaValue := func() []byte {
		var m []byte
		m = protowire.AppendString(protowire.AppendTag(m, 1, protowire.BytesType), "billing")
		m = protowire.AppendVarint(protowire.AppendTag(m, 2, protowire.VarintType), 3)
		m = protowire.AppendString(protowire.AppendTag(m, 3, protowire.BytesType), "payments")
		m = protowire.AppendVarint(protowire.AppendTag(m, 4, protowire.VarintType), 1000)
		m = protowire.AppendString(protowire.AppendTag(m, 5, protowire.BytesType), "eu-west")
		m = protowire.AppendVarint(protowire.AppendTag(m, 6, protowire.VarintType), 9)
		for _, kv := range [][2]string{{"zeta", "1"}, {"alpha", "2"}, {"mid", "3"}, {"beta", "4"}} {
			var e []byte
			e = protowire.AppendString(protowire.AppendTag(e, 1, protowire.BytesType), kv[0])
			e = protowire.AppendString(protowire.AppendTag(e, 2, protowire.BytesType), kv[1])
			m = protowire.AppendBytes(protowire.AppendTag(m, 7, protowire.BytesType), e)
		}
		return protowire.AppendBytes(protowire.AppendTag(nil, 50001, protowire.BytesType), m)
	}
	for i, x := range []string{"use", "use2"} {
		mo := &descriptorpb.MessageOptions{}
		mo.ProtoReflect().SetUnknown(metaValue())
		mo2 := &descriptorpb.MessageOptions{Deprecated: proto.Bool(true)}
		mo2.ProtoReflect().SetUnknown(unknownVarint(50002, uint64(4+i)))
		fo := &descriptorpb.FieldOptions{Deprecated: proto.Bool(true)}
		fo.ProtoReflect().SetUnknown(unknownVarint(50003, 11))
		out = append(out, &descriptorpb.FileDescriptorProto{
			Name: proto.String("pbsim/c40/" + x + "/" + x + ".proto"), Package: proto.String("pbsim.c40." + x), Syntax: proto.String("proto2"),
			Dependency: []string{"pbsim/c40/opts/opts.proto"},
			Options:    &descriptorpb.FileOptions{GoPackage: proto.String("example.com/pbsim/c40/" + x)},
			MessageType: []*descriptorpb.DescriptorProto{
				{Name: proto.String("Account"), Options: mo, Field: []*descriptorpb.FieldDescriptorProto{{Name: proto.String("id"), Number: proto.Int32(1), Label: opt, Type: str, Options: fo}}},
				{Name: proto.String("Ledger"), Options: mo2, Field: []*descriptorpb.FieldDescriptorProto{{Name: proto.String("id"), Number: proto.Int32(1), Label: opt, Type: str}}}},
		})
	}
	// pbsim/c40/clash/clash.proto (edition 2023, opaque API): fields whose Go names collide only after
	// camel-casing (user_id / UserId, ...), one member of each colliding pair inside the same oneof:
	// the generator's name mangling has to resolve several conflicts that meet in one oneof name
	{
		i64 := descriptorpb.FieldDescriptorProto_TYPE_INT64.Enum()
		gof := &gofeaturespb.GoFeatures{ApiLevel: gofeaturespb.GoFeatures_API_OPAQUE.Enum()}
		fs := &descriptorpb.FeatureSet{}
		proto.SetExtension(fs, gofeaturespb.E_Go, gof)
		in := func(f *descriptorpb.FieldDescriptorProto) *descriptorpb.FieldDescriptorProto {
			f.OneofIndex = proto.Int32(0)
			return f
		}
		out = append(out, &descriptorpb.FileDescriptorProto{
			Name: proto.String("pbsim/c40/clash/clash.proto"), Package: proto.String("pbsim.c40.clash"), Syntax: proto.String("editions"), Edition: descriptorpb.Edition_EDITION_2023.Enum(),
			Dependency: []string{"google/protobuf/go_features.proto"},
			Options:    &descriptorpb.FileOptions{GoPackage: proto.String("example.com/pbsim/c40/clash"), Features: fs},
			MessageType: []*descriptorpb.DescriptorProto{{Name: proto.String("Acl"),
				OneofDecl: []*descriptorpb.OneofDescriptorProto{{Name: proto.String("principal")}},
				Field: []*descriptorpb.FieldDescriptorProto{
					{Name: proto.String("user_id"), Number: proto.Int32(1), Label: opt, Type: str},
					{Name: proto.String("group_id"), Number: proto.Int32(2), Label: opt, Type: str},
					{Name: proto.String("role_id"), Number: proto.Int32(3), Label: opt, Type: str},
					in(&descriptorpb.FieldDescriptorProto{Name: proto.String("UserId"), Number: proto.Int32(4), Label: opt, Type: i64}),
					in(&descriptorpb.FieldDescriptorProto{Name: proto.String("GroupId"), Number: proto.Int32(5), Label: opt, Type: i64}),
					in(&descriptorpb.FieldDescriptorProto{Name: proto.String("RoleId"), Number: proto.Int32(6), Label: opt, Type: i64}),
				}}},
		})
	}
	return out
}

// c40Related: files that root imports (transitively, one level of importers too).
func c40Related(root string) []string {
	set := map[string]bool{}
	var walk func(p string, d int)
	walk = func(p string, d int) {
		fp := c40Protos[p]
		if fp == nil || d > 3 {
			return
		}
		for _, dep := range fp.GetDependency() {
			if c40Protos[dep] != nil && !set[dep] {
				set[dep] = true
				walk(dep, d+1)
			}
		}
	}
	walk(root, 0)
	direct := map[string]bool{}
	if fp := c40Protos[root]; fp != nil {
		for _, dep := range fp.GetDependency() {
			direct[dep] = true
		}
	}
	for _, p := range c40Files {
		for _, dep := range c40Protos[p].GetDependency() {
			// importers of root, and siblings: files importing something root imports too
			if dep == root || (direct[dep] && dep != "google/protobuf/go_features.proto" && dep != "google/protobuf/descriptor.proto") {
				set[p] = true
			}
		}
	}
	delete(set, root)
	var out []string
	for p := range set {
		out = append(out, p)
	}
	sort.Strings(out)
	return out
}

func (c40) Gen(r *sim.Rng, tier string) *scn.Scn {
	c40Load()
	s := &scn.Scn{P: map[string]int64{}}
	n := r.Range(1, 4)
	for i := 0; i < n; i++ {
		s.Objects = append(s.Objects, scn.Object{Type: "file", Note: c40Files[r.Intn(len(c40Files))]})
	}
	if r.Chance(2, 3) {
		// related files: a file together with files it imports / that import it
		// (state shared between files of one run shows only when they refer to the same packages)
		root := c40Files[r.Intn(len(c40Files))]
		rel := c40Related(root)
		s.Objects = s.Objects[:0]
		s.Objects = append(s.Objects, scn.Object{Type: "file", Note: root})
		for i := 0; i < n && len(rel) > 0; i++ {
			s.Objects = append(s.Objects, scn.Object{Type: "file", Note: rel[r.Intn(len(rel))]})
		}
	}
	if r.Chance(1, 5) {
		// files that declare custom options and files that use them (all outside the generator binary)
		s.Objects = s.Objects[:0]
		pick := append([]string(nil), c40SynthFiles...)
		shuffle(r, pick)
		for _, f := range pick[:r.Range(2, len(pick))] {
			s.Objects = append(s.Objects, scn.Object{Type: "file", Note: f})
		}
		if r.Chance(1, 3) {
			s.Objects = append(s.Objects, scn.Object{Type: "file", Note: c40Files[r.Intn(len(c40Files))]})
		}
	}
	var params []string
	switch r.Intn(4) {
	case 0:
		params = append(params, "paths=source_relative")
	case 1:
		params = append(params, "paths=import")
	case 2:
		params = append(params, "module=google.golang.org/protobuf")
	}
	switch r.Intn(5) {
	case 0:
		params = append(params, "default_api_level=API_OPAQUE")
	case 1:
		params = append(params, "default_api_level=API_HYBRID")
	case 2:
		params = append(params, "default_api_level=API_OPEN")
	}
	if r.Chance(1, 4) {
		params = append(params, "annotate_code=true")
	}
	if r.Chance(1, 4) {
		// remap one of the requested files (and so everything that imports it)
		f := s.Objects[r.Intn(len(s.Objects))].Note
		params = append(params, "M"+f+"=example.com/remapped/pkg"+fmt.Sprint(r.Intn(3))+";pkgname")
	}
	if r.Chance(1, 6) {
		f := s.Objects[0].Note
		params = append(params, "apilevelM"+f+"=API_OPAQUE")
	}
	if r.Chance(1, 2) {
		// import paths that share a base name: every file of the closure is
		// remapped to example.test/<n>/pb, so package-name disambiguation is needed
		var fs []string
		for _, o := range s.Objects {
			fs = append(fs, o.Note)
		}
		req := c40Request(&scn.Scn{}, fs)
		for i, pf := range req.ProtoFile {
			if r.Chance(7, 8) {
				params = append(params, fmt.Sprintf("M%s=example.test/p%d/pb", pf.GetName(), i))
			}
		}
	}
	s.Mode = strings.Join(params, ",")
	s.P["perm"] = int64(r.U64() >> 1)
	s.P["children"] = 2
	s.P["seeds"] = int64(r.Range(3, 8))
	return s
}

func c40Request(s *scn.Scn, order []string) *pluginpb.CodeGeneratorRequest {
	c40Load()
	req := &pluginpb.CodeGeneratorRequest{}
	if s.Mode != "" {
		req.Parameter = proto.String(s.Mode)
	}
	req.CompilerVersion = &pluginpb.Version{Major: proto.Int32(5), Minor: proto.Int32(29), Patch: proto.Int32(0)}
	seen := map[string]bool{}
	var visit func(p string)
	visit = func(p string) {
		if seen[p] {
			return
		}
		seen[p] = true
		fp := c40Protos[p]
		if fp == nil {
			// dependency without go_package: take it from the registry anyway
			if fd, err := protoregistry.GlobalFiles.FindFileByPath(p); err == nil {
				fp = protodesc.ToFileDescriptorProto(fd)
			} else {
				return
			}
		}
		for _, d := range fp.GetDependency() {
			visit(d)
		}
		req.ProtoFile = append(req.ProtoFile, fp)
	}
	gen := map[string]bool{}
	for _, p := range order {
		if !gen[p] {
			gen[p] = true
			req.FileToGenerate = append(req.FileToGenerate, p)
		}
	}
	// proto_file is in topological order regardless of the request order, as protoc does
	sorted := append([]string(nil), req.FileToGenerate...)
	sort.Strings(sorted)
	for _, p := range sorted {
		visit(p)
	}
	return req
}

// c40InProcess runs the generator the way cmd/protoc-gen-go's main does.
func c40InProcess(req *pluginpb.CodeGeneratorRequest) (resp *pluginpb.CodeGeneratorResponse, rejected string, panicked string) {
	var flags flag.FlagSet
	flags.String("plugins", "", "")
	flags.Bool("experimental_strip_nonfunctional_codegen", false, "")
	panicked = sim.Protect(func() {
		gen, err := protogen.Options{ParamFunc: flags.Set}.New(req)
		if err != nil {
			rejected = err.Error()
			return
		}
		for _, f := range gen.Files {
			if f.Generate {
				gengo.GenerateFile(gen, f)
			}
		}
		gen.SupportedFeatures = gengo.SupportedFeatures
		gen.SupportedEditionsMinimum = gengo.SupportedEditionsMinimum
		gen.SupportedEditionsMaximum = gengo.SupportedEditionsMaximum
		resp = gen.Response()
	})
	return
}

// c40PluginTypes holds the extension types the protoc-gen-go binary has linked in: those of
// descriptor.proto's own companions (go_features). Every other custom option of a request reaches
// the real plugin as unknown fields of the options messages, and so it does here (the worker has the
// test schemas linked in and would otherwise parse them into generated types).
var c40PluginTypes = func() *protoregistry.Types {
	t := new(protoregistry.Types)
	t.RegisterExtension(gofeaturespb.E_Go)
	return t
}()

// c40ParseRequest reads a serialized request the way the plugin binary does.
func c40ParseRequest(b []byte) *pluginpb.CodeGeneratorRequest {
	r := &pluginpb.CodeGeneratorRequest{}
	proto.UnmarshalOptions{Resolver: c40PluginTypes}.Unmarshal(b, r)
	return r
}

func respSet(resp *pluginpb.CodeGeneratorResponse) map[string]string {
	m := map[string]string{}
	for _, f := range resp.GetFile() {
		m[f.GetName()+"|"+f.GetInsertionPoint()] = f.GetContent() + "\x00" + f.GetGeneratedCodeInfo().String()
	}
	m["\x00error"] = resp.GetError()
	return m
}

func (c40) Run(s *scn.Scn, x *sim.Exec) {
	if len(s.Objects) == 0 {
		return
	}
	var files []string
	for _, o := range s.Objects {
		files = append(files, o.Note)
	}
	req := c40Request(s, files)
	reqBytes, err := proto.MarshalOptions{Deterministic: true}.Marshal(req)
	if err != nil {
		return
	}
	var ref []byte
	nseeds := int(s.P["seeds"])
	if nseeds < 2 {
		nseeds = 2
	}
	for i := 0; i < nseeds; i++ {
		ms := sim.Mix(uint64(s.P["perm"]), uint64(i)) | 1
		sim.SetMapSeed(ms)
		// a fresh request object each time: the generator may annotate what it is given
		r := c40ParseRequest(reqBytes)
		resp, rejected, panicked := c40InProcess(r)
		if panicked != "" {
			x.Probe("generator-panicked-(outside-the-property)", 1)
			return
		}
		if rejected != "" {
			x.Probe("requests-rejected-(no-response)", 1)
			return
		}
		x.Out.Evals++
		x.Fault("map-order")
		b, err := proto.MarshalOptions{Deterministic: true}.Marshal(resp)
		if err != nil {
			return
		}
		if i == 0 {
			ref = b
			if resp.GetError() != "" {
				x.Probe("responses-with-error-field", 1)
			}
			continue
		}
		if !bytes.Equal(ref, b) {
			x.Fail("response-differs-across-map-orders", "CodeGeneratorResponse for files %v (parameter %q) differs between two in-process runs that differ only in Go map iteration order (map seed %d): %s", files, s.Mode, ms, c40Diff(ref, b))
			return
		}
	}
	// (b) order in which generated files are requested
	perm := append([]string(nil), files...)
	pr := sim.NewRng(uint64(s.P["perm"]))
	shuffle(pr, perm)
	if len(perm) > 1 {
		r2b, _ := proto.MarshalOptions{Deterministic: true}.Marshal(c40Request(s, perm))
		resp2, rej, pan := c40InProcess(c40ParseRequest(r2b))
		if rej == "" && pan == "" {
			x.Out.Evals++
			r1 := &pluginpb.CodeGeneratorResponse{}
			proto.Unmarshal(ref, r1)
			a, b := respSet(r1), respSet(resp2)
			if r1.GetError() != "" || resp2.GetError() != "" {
				// a run that fails reports the first failing file in request order;
				// the permutation clause speaks about generated files, not about which error comes first
				x.Probe("permutations-skipped-(error-responses)", 1)
				a, b = nil, nil
			}
			if len(a) != len(b) {
				x.Fail("response-depends-on-request-order", "requesting %v instead of %v yields %d instead of %d generated files", perm, files, len(b)-1, len(a)-1)
				return
			}
			var names []string
			for k := range a {
				names = append(names, k)
			}
			sort.Strings(names)
			for _, k := range names {
				if a[k] != b[k] {
					x.Fail("response-depends-on-request-order", "requesting %v instead of %v changes the content of %q", perm, files, strings.TrimSuffix(k, "|"))
					return
				}
			}
			x.Probe("request-order-permutations", 1)
		}
	}
	// (c) the real plugin binary in fresh processes
	if plugin := os.Getenv("PBSIM_PLUGIN"); plugin != "" {
		wire, _ := proto.Marshal(req)
		// Runs of the plugin binary are compared with each other, not with the
		// in-process reference: the two are different binaries, and prototext
		// output (the .meta files of annotate_code) deliberately varies between
		// binaries (internal/detrand), which is not what the property is about.
		var childRef []byte
		for i := int64(0); i < s.P["children"]; i++ {
			ms := sim.Mix(uint64(s.P["perm"]), 1000+uint64(i)) | 1
			cmd := exec.Command(plugin)
			cmd.Stdin = bytes.NewReader(wire)
			cmd.Env = append(os.Environ(), fmt.Sprintf("PBSIM_MAPSEED=%d", ms))
			var out, errb bytes.Buffer
			cmd.Stdout, cmd.Stderr = &out, &errb
			if err := cmd.Run(); err != nil {
				x.Fail("plugin-process-failed", "protoc-gen-go exited with %v for a request the in-process generator accepts: %s", err, tail(errb.String(), 800))
				return
			}
			x.Fault("process-restart")
			x.Out.Evals++
			resp := &pluginpb.CodeGeneratorResponse{}
			if err := proto.Unmarshal(out.Bytes(), resp); err != nil {
				x.Fail("plugin-output-unparsable", "protoc-gen-go wrote something that is not a CodeGeneratorResponse: %v", err)
				return
			}
			b, _ := proto.MarshalOptions{Deterministic: true}.Marshal(resp)
			if childRef == nil {
				childRef = b
				continue
			}
			if !bytes.Equal(childRef, b) {
				x.Fail("response-differs-across-processes", "CodeGeneratorResponse of two fresh protoc-gen-go processes (second with map seed %d) differ for files %v (parameter %q): %s", ms, files, s.Mode, c40Diff(childRef, b))
				return
			}
		}
		x.Probe("plugin-binary-runs", s.P["children"])
	}
	x.Key(sim.Mix(sim.HashStr(strings.Join(files, ",")+"|"+s.Mode), sim.Hash64(ref)))
}

func c40Diff(a, b []byte) string {
	ra, rb := &pluginpb.CodeGeneratorResponse{}, &pluginpb.CodeGeneratorResponse{}
	proto.Unmarshal(a, ra)
	proto.Unmarshal(b, rb)
	sa, sb := respSet(ra), respSet(rb)
	var names []string
	for k := range sa {
		names = append(names, k)
	}
	sort.Strings(names)
	for _, k := range names {
		if sa[k] != sb[k] {
			la, lb := strings.Split(sa[k], "\n"), strings.Split(sb[k], "\n")
			for i := 0; i < len(la) && i < len(lb); i++ {
				if la[i] != lb[i] {
					return fmt.Sprintf("file %q line %d: %q vs %q", strings.TrimSuffix(k, "|"), i+1, trunc(la[i], 160), trunc(lb[i], 160))
				}
			}
			return fmt.Sprintf("file %q differs in length (%d vs %d lines)", k, len(la), len(lb))
		}
	}
	if len(ra.GetFile()) != len(rb.GetFile()) {
		return fmt.Sprintf("%d vs %d files", len(ra.GetFile()), len(rb.GetFile()))
	}
	return "same set of files and contents, different order or metadata"
}

func trunc(s string, n int) string {
	if len(s) > n {
		return s[:n] + "..."
	}
	return s
}
