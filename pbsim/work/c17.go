package work

import (
	"bytes"
	"fmt"
	"reflect"
	"strings"

	"google.golang.org/protobuf/encoding/protojson"
	"google.golang.org/protobuf/encoding/prototext"
	"google.golang.org/protobuf/internal/flags"
	"google.golang.org/protobuf/internal/strs"
	"google.golang.org/protobuf/proto"
	"google.golang.org/protobuf/reflect/protoreflect"
	"google.golang.org/protobuf/zverifsim/gen"
	"google.golang.org/protobuf/zverifsim/scn"
	"google.golang.org/protobuf/zverifsim/sim"
)

// C17 — lazy decoding is observationally equivalent to eager decoding.
//
// One wire input (valid, legal-but-non-minimal, or corrupt inside a lazy
// submessage) is decoded twice, lazily into L and with NoLazyDecoding into E.
// The verdicts must agree; then a seeded history of reads and writes is
// applied to both in lock-step. What varies from run to run is *when* the
// deferred work happens relative to the other operations on the object
// (including failed decodes, owner scribbles of the original input, and
// re-decodes), which is the schedule dimension of this property.
type c17 struct{}

func init() { sim.Register(c17{}) }

func (c17) ID() string { return "C17" }

// lazyCapable reports whether messages of this type hold lazy fields undecoded in this build.
func lazyCapable(typ string) bool {
	t := reflect.TypeOf(gen.NewMsg(typ))
	if t.Kind() == reflect.Ptr {
		t = t.Elem()
	}
	_, ok := t.FieldByName("XXX_lazyUnmarshalInfo")
	return ok
}

func c17Roots() []string {
	roots := append([]string(nil), lazyRoots...)
	for _, t := range []string{gen.THybNode, gen.THybrid, gen.TMixedHyb} {
		if lazyCapable(t) {
			roots = append(roots, t)
		}
	}
	if flags.ProtoLegacy {
		// with -tags protolegacy extension values are decoded lazily too
		roots = append(roots, gen.TExt2, gen.TExt2)
	}
	return roots
}

var c17Ops = []string{
	"get-chain", "get-chain", "has-chain", "reflect-get", "reflect-range", "size", "marshal", "marshal-det", "json", "text", "checkinit", "merge-from", "unknown",
	"set-scalar", "set-scalar", "clear-field", "clear-field", "set-msg", "mutable-touch", "gen-set-msg", "gen-clear", "merge-into", "merge-into",
	"unmarshal-merge", "unmarshal-merge-nolazy", "unmarshal", "reset", "clone-continue", "size-marshal-cached", "scribble", "compare", "unmarshal-bad",
}

func (c17) Gen(r *sim.Rng, tier string) *scn.Scn {
	s := &scn.Scn{P: map[string]int64{}, NoDryRun: true}
	roots := c17Roots()
	typ := roots[r.Intn(len(roots))]
	nobj := r.Range(2, 3)
	var paths [][]int32
	for i := 0; i < nobj; i++ {
		intensity := 0
		if r.Chance(2, 5) {
			intensity = []int{40, 120, 300}[r.Intn(3)]
		}
		w, st := buildLazyWire(r.Fork(), typ, r.Range(2, 4), r.Range(1, 3), intensity)
		o := scn.Object{Type: typ, Wire: w}
		if st.Total() > 0 {
			o.Note = fmt.Sprintf("denormalised: %+v", st)
		}
		if i == nobj-1 && r.Chance(1, 2) || (i == 0 && r.Chance(1, 6)) {
			// corrupt one nested payload (preferably inside a lazy field)
			if t, ok := gen.ParseWire(gen.Type(typ).Descriptor(), w); ok {
				if kind, inLazy, ok := gen.Corrupt(r, t); ok {
					o.Wire = t.Encode()
					o.Mode = "corrupt"
					o.Note = fmt.Sprintf("corrupt: %s inLazy=%v", kind, inLazy)
				}
			}
		}
		s.Objects = append(s.Objects, o)
		if t, err := decodeEager(typ, o.Wire); err == nil {
			paths = append(paths, msgPaths(t.ProtoReflect(), 4)...)
		}
	}
	s.P["partial"] = int64(r.Intn(2)) // 1: AllowPartial on decode
	if r.Chance(1, 6) {
		s.P["discard"] = 1 // DiscardUnknown on both sides
	}
	if r.Chance(1, 5) {
		s.P["reclimit"] = int64([]int{2, 3, 4, 6, 100}[r.Intn(5)]) // RecursionLimit on both sides
	}
	var ops []scn.Op
	n := r.Range(3, 14)
	for i := 0; i < n; i++ {
		op := scn.Op{Op: c17Ops[r.Intn(len(c17Ops))], Obj: r.Intn(nobj), N: int64(r.Intn(1 << 16)), S: fmt.Sprint(r.U64() >> 1)}
		if len(paths) > 0 && r.Chance(4, 5) {
			op.Path = paths[r.Intn(len(paths))]
			if r.Chance(1, 4) && len(op.Path) > 1 {
				op.Path = op.Path[:len(op.Path)-1]
			}
		}
		ops = append(ops, op)
	}
	s.Phases = []scn.Phase{{Clients: [][]scn.Op{ops}, Sched: scn.Sched{Kind: "tape"}}}
	return s
}

type c17Pair struct {
	typ      string
	L, E     proto.Message
	bufL     []byte // the buffer L was decoded from (owned by the harness, may be scribbled)
	discard  bool
	reclimit int
}

// errClass is the verdict the property speaks of: accepted or rejected. (The
// two decoders word their errors differently — "invalid proto wire format" vs
// "string field contains invalid UTF-8" — which is not a difference in verdict.)
func errClass(err error) string {
	if err == nil {
		return "accepted"
	}
	return "rejected"
}

// decodeBoth decodes wire into the pair (fresh or merging) and compares verdicts.
func (p *c17Pair) decodeBoth(wire []byte, merge, partial, lazyOnL bool) (bad string, failed bool) {
	bufL := append([]byte(nil), wire...)
	uoL := proto.UnmarshalOptions{AllowPartial: partial, Merge: merge, NoLazyDecoding: !lazyOnL, DiscardUnknown: p.discard, RecursionLimit: p.reclimit}
	uoE := proto.UnmarshalOptions{AllowPartial: partial, Merge: merge, NoLazyDecoding: true, DiscardUnknown: p.discard, RecursionLimit: p.reclimit}
	errL := uoL.Unmarshal(bufL, p.L)
	errE := uoE.Unmarshal(append([]byte(nil), wire...), p.E)
	if errClass(errL) != errClass(errE) {
		return fmt.Sprintf("verdict-differs: lazy decode: %v; eager decode: %v", errL, errE), true
	}
	if !merge {
		p.bufL = bufL
	}
	return "", errL != nil
}

func walkMutable(m protoreflect.Message, path []int32) protoreflect.Message {
	for _, n := range path {
		fd := fieldByNumber(m, n)
		if fd == nil || fd.Message() == nil || fd.IsList() || fd.IsMap() {
			break
		}
		m = m.Mutable(fd).Message()
	}
	return m
}

func walkRead(m protoreflect.Message, path []int32) protoreflect.Message {
	for _, n := range path {
		fd := fieldByNumber(m, n)
		if fd == nil || fd.Message() == nil || fd.IsList() || fd.IsMap() || !m.Has(fd) {
			break
		}
		m = m.Get(fd).Message()
	}
	return m
}

// c17Write applies a write operation to one side.
func c17Write(root proto.Message, op *scn.Op, seed uint64, objs []scn.Object, lazySide bool) uint64 {
	r := sim.NewRng(seed)
	switch op.Op {
	case "set-scalar":
		m := walkMutable(root.ProtoReflect(), op.Path)
		fds := m.Descriptor().Fields()
		var cands []protoreflect.FieldDescriptor
		for i := 0; i < fds.Len(); i++ {
			if fd := fds.Get(i); fd.Message() == nil && !fd.IsList() && !fd.IsMap() {
				cands = append(cands, fd)
			}
		}
		if len(cands) == 0 {
			return 0
		}
		fd := cands[int(op.N)%len(cands)]
		o := gen.DefaultOpts()
		gen.SetField(r, m, fd, o, 0)
		return uint64(fd.Number())
	case "clear-field":
		// clear the field the path ends in (possibly a lazily held one, undecoded)
		if len(op.Path) == 0 {
			return 0
		}
		m := walkRead(root.ProtoReflect(), op.Path[:len(op.Path)-1])
		if fd := fieldByNumber(m, op.Path[len(op.Path)-1]); fd != nil {
			m.Clear(fd)
			return uint64(fd.Number())
		}
	case "set-msg":
		if len(op.Path) == 0 {
			return 0
		}
		m := walkMutable(root.ProtoReflect(), op.Path[:len(op.Path)-1])
		fd := fieldByNumber(m, op.Path[len(op.Path)-1])
		if fd == nil || fd.Message() == nil || fd.IsList() || fd.IsMap() {
			return 0
		}
		v := m.NewField(fd)
		o := gen.DefaultOpts()
		o.MaxDepth = 1
		o.Extensions = false
		gen.Populate(r, v.Message(), o)
		m.Set(fd, v)
		return uint64(fd.Number())
	case "mutable-touch":
		m := walkMutable(root.ProtoReflect(), op.Path)
		return uint64(m.Descriptor().Fields().Len())
	case "gen-set-msg", "gen-clear":
		if len(op.Path) == 0 {
			return 0
		}
		parent := walkMutable(root.ProtoReflect(), op.Path[:len(op.Path)-1]).Interface()
		fd := fieldByNumber(parent.ProtoReflect(), op.Path[len(op.Path)-1])
		if fd == nil || fd.Message() == nil || fd.IsList() || fd.IsMap() {
			return 0
		}
		name := strs.GoCamelCase(string(fd.Name()))
		if op.Op == "gen-clear" {
			meth := reflect.ValueOf(parent).MethodByName("Clear" + name)
			if !meth.IsValid() {
				parent.ProtoReflect().Clear(fd)
				return 1
			}
			meth.Call(nil)
			return 2
		}
		meth := reflect.ValueOf(parent).MethodByName("Set" + name)
		v := parent.ProtoReflect().NewField(fd)
		o := gen.DefaultOpts()
		o.MaxDepth = 1
		o.Extensions = false
		gen.Populate(r, v.Message(), o)
		if !meth.IsValid() || meth.Type().NumIn() != 1 || !reflect.TypeOf(v.Message().Interface()).AssignableTo(meth.Type().In(0)) {
			parent.ProtoReflect().Set(fd, v)
			return 3
		}
		meth.Call([]reflect.Value{reflect.ValueOf(v.Message().Interface())})
		return 4
	case "merge-into":
		o := objs[op.Obj%len(objs)]
		var src proto.Message
		var err error
		if lazySide {
			src, err = decodeLazy(o.Type, o.Wire)
		} else {
			src, err = decodeEager(o.Type, o.Wire)
		}
		if err != nil {
			return 0
		}
		if op.N%3 == 0 {
			// touch part of the source first, so that it is partially expanded
			walkRead(src.ProtoReflect(), op.Path)
		}
		proto.Merge(root, src)
		return 5
	case "reset":
		proto.Reset(root)
		return 6
	}
	return 0
}

func c17Read(root proto.Message, op *scn.Op) (c18Res, []byte) {
	cl := &c18Client{}
	switch op.Op {
	case "marshal", "size-marshal-cached":
		target := walkRead(root.ProtoReflect(), op.Path).Interface()
		var b []byte
		var err error
		if op.Op == "marshal" {
			b, err = proto.MarshalOptions{AllowPartial: true}.Marshal(target)
		} else {
			proto.Size(target)
			b, err = proto.MarshalOptions{AllowPartial: true, UseCachedSize: true}.Marshal(target)
		}
		if err != nil {
			return c18Res{err: err.Error()}, nil
		}
		return c18Res{relaxed: true}, b
	case "size":
		target := walkRead(root.ProtoReflect(), op.Path).Interface()
		return c18Res{relaxed: true, length: proto.Size(target)}, nil
	case "equal", "clone":
		return c18Res{}, nil
	}
	return c18Do(root, cl, op), nil
}

func (c17) Run(s *scn.Scn, x *sim.Exec) {
	if len(s.Objects) == 0 || len(s.Phases) == 0 {
		return
	}
	typ := s.Objects[0].Type
	partial := s.P["partial"] == 1
	p := &c17Pair{typ: typ, L: gen.NewMsg(typ), E: gen.NewMsg(typ), discard: s.P["discard"] == 1, reclimit: int(s.P["reclimit"])}
	bad, failed := p.decodeBoth(s.Objects[0].Wire, false, partial, true)
	if bad != "" {
		cls, det, _ := strings.Cut(bad, ": ")
		x.Fail(cls, "initial decode of object 0 (%s): %s", s.Objects[0].Note, det)
		return
	}
	if s.Objects[0].Mode == "corrupt" {
		x.Fault("failed-decode")
	}
	if strings.HasPrefix(s.Objects[0].Note, "denormalised") {
		x.Fault("denormalised-wire")
	}
	if failed {
		x.Probe("initial-decode-rejected-by-both", 1)
		p.L, p.E = gen.NewMsg(typ), gen.NewMsg(typ)
	}
	compare := func(when string) string {
		if !proto.Equal(p.L, p.E) {
			return "diverged: " + when + ": the lazily decoded message is not Equal to the eagerly decoded one"
		}
		bl, el := detBytes(p.L)
		be, ee := detBytes(p.E)
		if (el == nil) != (ee == nil) || !bytes.Equal(bl, be) {
			return fmt.Sprintf("diverged: %s: deterministic bytes differ (errors %v / %v)", when, el, ee)
		}
		cl, ce := proto.CheckInitialized(p.L), proto.CheckInitialized(p.E)
		if (cl == nil) != (ce == nil) {
			return fmt.Sprintf("diverged: %s: CheckInitialized verdicts differ (%v / %v)", when, cl, ce)
		}
		jl, _ := protojson.MarshalOptions{AllowPartial: true}.Marshal(p.L)
		je, _ := protojson.MarshalOptions{AllowPartial: true}.Marshal(p.E)
		if !bytes.Equal(jl, je) {
			return "diverged: " + when + ": JSON output differs"
		}
		tl, _ := prototext.MarshalOptions{AllowPartial: true}.Marshal(p.L)
		te, _ := prototext.MarshalOptions{AllowPartial: true}.Marshal(p.E)
		if !bytes.Equal(tl, te) {
			return "diverged: " + when + ": text output differs"
		}
		return ""
	}
	shape := typ
	x.RunPhase(0, func(client, opi int, op *scn.Op) sim.OpResult {
		var seed uint64
		fmt.Sscan(op.S, &seed)
		shape += "," + op.Op
		where := fmt.Sprintf("op %d (%s path %s)", opi, op.Op, pathKey(op.Path))
		switch op.Op {
		case "set-scalar", "clear-field", "set-msg", "mutable-touch", "gen-set-msg", "gen-clear", "merge-into", "reset":
			a := c17Write(p.L, op, seed, s.Objects, true)
			b := c17Write(p.E, op, seed, s.Objects, false)
			if a != b {
				return sim.OpResult{Bad: fmt.Sprintf("diverged: %s: the write took different routes on the two messages (%d / %d)", where, a, b)}
			}
			return sim.OpResult{Digest: a}
		case "unmarshal", "unmarshal-merge", "unmarshal-merge-nolazy", "unmarshal-bad":
			o := s.Objects[op.Obj%len(s.Objects)]
			wire := o.Wire
			if op.Op == "unmarshal-bad" {
				// a failing decode in the middle of the history: truncate the input
				if len(wire) > 2 {
					wire = wire[:len(wire)-1-int(seed%uint64(len(wire)/2+1))]
				}
			}
			merge := op.Op == "unmarshal-merge" || op.Op == "unmarshal-merge-nolazy"
			bad, failed := p.decodeBoth(wire, merge, partial || op.Op == "unmarshal-bad", op.Op != "unmarshal-merge-nolazy")
			if bad != "" {
				return sim.OpResult{Bad: bad[:strings.Index(bad, ": ")] + ": " + where + ": " + bad[strings.Index(bad, ": ")+2:]}
			}
			if o.Mode == "corrupt" || op.Op == "unmarshal-bad" {
				x.Fault("failed-decode")
			}
			if failed {
				// partial states after a failed decode may legitimately differ: erase
				x.Probe("failed-decode-mid-history", 1)
				proto.Reset(p.L)
				proto.Reset(p.E)
				return sim.OpResult{Digest: 0xfa11}
			}
			return sim.OpResult{Digest: 1}
		case "clone-continue":
			p.L, p.E = proto.Clone(p.L), proto.Clone(p.E)
			return sim.OpResult{}
		case "scribble":
			for j := range p.bufL {
				p.bufL[j] = ^p.bufL[j]
			}
			if len(p.bufL) > 0 {
				x.Fault("scribble")
			}
			return sim.OpResult{}
		case "compare":
			if msg := compare("at " + where); msg != "" {
				return sim.OpResult{Bad: msg}
			}
			return sim.OpResult{}
		}
		// reads
		rl, bl := c17Read(p.L, op)
		re, be := c17Read(p.E, op)
		if rl.err != re.err {
			return sim.OpResult{Bad: fmt.Sprintf("diverged: %s: lazy side returned error %q, eager side %q", where, rl.err, re.err)}
		}
		if rl.relaxed {
			if op.Op == "size" {
				// Size may differ only while a non-minimal encoding is still held undecoded (C04's documented exception)
				return sim.OpResult{}
			}
			target := walkRead(p.E.ProtoReflect(), op.Path)
			dl, de := target.New().Interface(), target.New().Interface()
			uo := proto.UnmarshalOptions{AllowPartial: true, NoLazyDecoding: true}
			if err := uo.Unmarshal(bl, dl); err != nil {
				return sim.OpResult{Bad: fmt.Sprintf("diverged: %s: Marshal output of the lazy side does not decode: %v", where, err)}
			}
			uo.Unmarshal(be, de)
			if !proto.Equal(dl, de) {
				return sim.OpResult{Bad: fmt.Sprintf("diverged: %s: Marshal output of the lazy side encodes different content than the eager side's", where)}
			}
			return sim.OpResult{}
		}
		if rl.digest != re.digest {
			return sim.OpResult{Bad: fmt.Sprintf("diverged: %s: result %x on the lazily decoded message, %x on the eagerly decoded one", where, rl.digest, re.digest)}
		}
		return sim.OpResult{Digest: rl.digest}
	})
	if x.Failed() {
		return
	}
	if msg := compare("at the end of the history"); msg != "" {
		cls, det, _ := strings.Cut(msg, ": ")
		x.Fail(cls, "%s", det)
		return
	}
	x.Key(sim.HashStr(shape))
}
