package work

import (
	"bufio"
	"bytes"
	"fmt"
	"sort"
	"strings"
	"unsafe"

	"google.golang.org/protobuf/encoding/protodelim"
	"google.golang.org/protobuf/encoding/protojson"
	"google.golang.org/protobuf/encoding/prototext"
	"google.golang.org/protobuf/encoding/protowire"
	"google.golang.org/protobuf/proto"
	"google.golang.org/protobuf/reflect/protoreflect"
	"google.golang.org/protobuf/types/dynamicpb"
	"google.golang.org/protobuf/types/known/anypb"
	"google.golang.org/protobuf/zverifsim/gen"
	"google.golang.org/protobuf/zverifsim/scn"
	"google.golang.org/protobuf/zverifsim/sim"
)

// C14 — decoded and cloned messages never alias caller memory.
//
// The fault is the owner reusing its memory: a buffer handed to a completed
// Unmarshal is overwritten at a later, seeded instant; the source of a Clone or
// Merge is mutated in place afterwards; a bufio.Reader that delivered a
// protodelim frame goes on reading. Lazy decoding is the in-flight state: the
// interesting instants lie between Unmarshal and first access.
//
// Oracle: the expected content of every slot is tracked as deterministic bytes
// computed only from private copies and fresh messages (never from the
// messages under test, so an aliasing bug cannot corrupt the expectation too).
type c14 struct{}

func init() { sim.Register(c14{}) }

func (c14) ID() string { return "C14" }

var c14Types = []string{gen.TOpen2, gen.TOpen3, gen.TEditions, gen.TOpaque, gen.TLazyNode, gen.TMixedOpq, gen.TExt2, gen.THybrid, "pbsim.fx.AfterOneof", "opaque.goproto.proto.test3.TestAllTypes"}

func (c14) Gen(r *sim.Rng, tier string) *scn.Scn {
	s := &scn.Scn{P: map[string]int64{}, NoDryRun: true}
	typ := c14Types[r.Intn(len(c14Types))]
	nobj := r.Range(2, 4)
	for i := 0; i < nobj; i++ {
		var w []byte
		if typ == gen.TLazyNode || typ == gen.TMixedOpq || (typ == gen.TOpaque && r.Chance(1, 2)) {
			intensity := 0
			if r.Chance(1, 4) {
				intensity = 100
			}
			w, _ = buildLazyWire(r.Fork(), typ, r.Range(2, 3), 2, intensity)
		} else {
			o := gen.DefaultOpts()
			o.MaxDepth = 2
			o.LargeBytes = true
			o.FieldPerm = 120
			m := gen.New(r.Fork(), gen.Type(typ), o)
			// make sure bytes-typed content is present: that is what can alias
			c14ForceBytes(r, m.ProtoReflect())
			w, _ = proto.MarshalOptions{AllowPartial: true}.Marshal(m)
		}
		s.Objects = append(s.Objects, scn.Object{Type: typ, Wire: w})
	}
	nslots := r.Range(2, 4)
	s.P["slots"] = int64(nslots)
	if r.Chance(1, 5) {
		s.P["dynamic"] = 1 // slots hold dynamicpb messages: Merge/Clone take the reflection path
	}
	s.P["bufsize"] = int64([]int{16, 32, 64, 256, 4096}[r.Intn(5)])
	var ops []scn.Op
	n := r.Range(4, 16)
	kinds := []string{"unmarshal", "unmarshal", "unmarshal", "unmarshal-from", "clone", "merge", "scribble", "scribble", "mutate", "mutate", "observe", "observe", "unmarshal-merge", "reuse", "unmarshal-json", "unmarshal-text", "unmarshal-any"}
	for i := 0; i < n; i++ {
		op := scn.Op{Op: kinds[r.Intn(len(kinds))], Obj: r.Intn(nobj), N: int64(r.Intn(nslots)), M: int64(r.Intn(nslots)), S: fmt.Sprint(r.U64() >> 1)}
		op.Flag = r.Chance(1, 3) // unmarshal: NoLazyDecoding / DiscardUnknown variations encoded in Path
		op.Path = []int32{int32(r.Intn(4))}
		ops = append(ops, op)
	}
	s.Phases = []scn.Phase{{Clients: [][]scn.Op{ops}, Sched: scn.Sched{Kind: "tape"}}}
	return s
}

func c14ForceBytes(r *sim.Rng, m protoreflect.Message) {
	fds := m.Descriptor().Fields()
	for i := 0; i < fds.Len(); i++ {
		fd := fds.Get(i)
		if fd.Kind() != protoreflect.BytesKind || fd.IsMap() {
			continue
		}
		if fd.ContainingOneof() != nil && !r.Chance(1, 4) {
			continue
		}
		if fd.IsList() {
			l := m.Mutable(fd).List()
			l.Append(protoreflect.ValueOfBytes(r.Bytes(r.Range(1, 20))))
			l.Append(protoreflect.ValueOfBytes(r.Bytes(r.Range(1, 9))))
		} else if r.Chance(3, 4) {
			m.Set(fd, protoreflect.ValueOfBytes(r.Bytes(r.Range(1, 24))))
		}
	}
	if r.Chance(1, 2) {
		m.SetUnknown(append(m.GetUnknown(), gen.UnknownFields(r, m.Descriptor())...))
	}
}

type c14Slot struct {
	m        proto.Message
	expected []byte // deterministic bytes of the expected content (nil: slot empty)
	used     bool
}

type ownedBuf struct {
	b    []byte
	what string
}

// c14Dynamic is set for the duration of a scenario whose slots hold dynamicpb messages.
var c14Dynamic bool

func c14New(typ string) proto.Message {
	if c14Dynamic {
		return dynamicpb.NewMessage(gen.Type(typ).Descriptor())
	}
	return gen.NewMsg(typ)
}

func detBytes(m proto.Message) ([]byte, error) {
	return proto.MarshalOptions{AllowPartial: true, Deterministic: true}.Marshal(m)
}

func freshFrom(typ string, det []byte) proto.Message {
	m := c14New(typ)
	if len(det) > 0 {
		(proto.UnmarshalOptions{AllowPartial: true, NoLazyDecoding: true}).Unmarshal(append([]byte(nil), det...), m)
	}
	return m
}

func sliceRange(b []byte) (lo, hi uintptr) {
	if cap(b) == 0 {
		return 0, 0
	}
	p := uintptr(unsafe.Pointer(unsafe.SliceData(b)))
	return p, p + uintptr(cap(b))
}

// collectSlices walks m and returns the address ranges of every []byte value
// and of the unknown-field slices.
func collectSlices(m protoreflect.Message, out *[][2]uintptr, depth int) {
	if depth > 8 {
		return
	}
	add := func(b []byte) {
		if lo, hi := sliceRange(b); lo != 0 {
			*out = append(*out, [2]uintptr{lo, hi})
		}
	}
	add(m.GetUnknown())
	m.Range(func(fd protoreflect.FieldDescriptor, v protoreflect.Value) bool {
		switch {
		case fd.IsMap():
			v.Map().Range(func(k protoreflect.MapKey, mv protoreflect.Value) bool {
				if fd.MapValue().Kind() == protoreflect.BytesKind {
					add(mv.Bytes())
				} else if fd.MapValue().Message() != nil {
					collectSlices(mv.Message(), out, depth+1)
				}
				return true
			})
		case fd.IsList():
			l := v.List()
			for i := 0; i < l.Len(); i++ {
				if fd.Kind() == protoreflect.BytesKind {
					add(l.Get(i).Bytes())
				} else if fd.Message() != nil {
					collectSlices(l.Get(i).Message(), out, depth+1)
				}
			}
		case fd.Kind() == protoreflect.BytesKind:
			add(v.Bytes())
		case fd.Message() != nil:
			collectSlices(v.Message(), out, depth+1)
		}
		return true
	})
}

// mutateInPlace applies a seeded mutation to m, modifying byte slices in place
// where it can (what an owner of the message may do).
func mutateInPlace(r *sim.Rng, m protoreflect.Message, depth int) int {
	type ent struct {
		fd protoreflect.FieldDescriptor
		v  protoreflect.Value
	}
	var ents []ent
	m.Range(func(fd protoreflect.FieldDescriptor, v protoreflect.Value) bool {
		ents = append(ents, ent{fd, v})
		return true
	})
	sort.Slice(ents, func(i, j int) bool { return ents[i].fd.Number() < ents[j].fd.Number() })
	n := 0
	flip := func(b []byte) {
		if len(b) > 0 {
			for k := 0; k < len(b); k += 1 + r.Intn(3) {
				b[k] ^= 0xA5
			}
			n++
		}
	}
	for _, e := range ents {
		fd, v := e.fd, e.v
		if !r.Chance(2, 3) {
			continue
		}
		switch {
		case fd.IsMap():
			mp := v.Map()
			var keys []protoreflect.MapKey
			mp.Range(func(k protoreflect.MapKey, _ protoreflect.Value) bool { keys = append(keys, k); return true })
			sort.Slice(keys, func(i, j int) bool { return keys[i].String() < keys[j].String() })
			for _, k := range keys {
				if fd.MapValue().Kind() == protoreflect.BytesKind {
					flip(mp.Get(k).Bytes())
				} else if fd.MapValue().Message() != nil && depth < 4 {
					n += mutateInPlace(r, mp.Get(k).Message(), depth+1)
				}
			}
			if len(keys) > 0 && r.Chance(1, 3) {
				mp.Clear(keys[0])
				n++
			}
		case fd.IsList():
			l := v.List()
			for i := 0; i < l.Len(); i++ {
				if fd.Kind() == protoreflect.BytesKind {
					flip(l.Get(i).Bytes())
				} else if fd.Message() != nil && depth < 4 {
					n += mutateInPlace(r, l.Get(i).Message(), depth+1)
				}
			}
			if fd.Kind() == protoreflect.BytesKind {
				l.Append(protoreflect.ValueOfBytes(r.Bytes(r.Range(1, 6))))
				n++
			} else if l.Len() > 1 && r.Chance(1, 3) {
				l.Truncate(l.Len() - 1)
				n++
			}
		case fd.Kind() == protoreflect.BytesKind:
			b := v.Bytes()
			if r.Chance(1, 2) || len(b) == 0 {
				flip(b)
			}
			if r.Chance(1, 2) {
				// append, possibly within the spare capacity of the existing slice
				m.Set(fd, protoreflect.ValueOfBytes(append(b, r.Bytes(r.Range(1, 5))...)))
				n++
			}
		case fd.Message() != nil:
			if depth < 4 {
				n += mutateInPlace(r, m.Mutable(fd).Message(), depth+1)
			}
		case fd.Kind() == protoreflect.StringKind:
			m.Set(fd, protoreflect.ValueOfString(gen.String(r)+"!"))
			n++
		}
	}
	if r.Chance(1, 2) {
		u := m.GetUnknown()
		extra := protowire.AppendVarint(protowire.AppendTag(nil, 7777, protowire.VarintType), uint64(r.Intn(1000)))
		if !gen.IsMessageSet(m.Descriptor()) && m.Descriptor().Fields().ByNumber(7777) == nil && !m.Descriptor().ExtensionRanges().Has(7777) {
			m.SetUnknown(append(u, extra...))
			n++
		}
	}
	return n
}

func (c14) Run(s *scn.Scn, x *sim.Exec) {
	if len(s.Objects) == 0 || len(s.Phases) == 0 {
		return
	}
	typ := s.Objects[0].Type
	c14Dynamic = s.P["dynamic"] == 1
	defer func() { c14Dynamic = false }()
	if c14Dynamic {
		x.Probe("dynamicpb-scenarios", 1)
	}
	nslots := int(s.P["slots"])
	if nslots < 1 {
		nslots = 1
	}
	slots := make([]c14Slot, nslots)
	var owned []ownedBuf // every buffer the harness handed to the library and still owns
	// one delimited stream for unmarshal-from
	var stream []byte
	var frames [][]byte
	for _, o := range s.Objects {
		stream = protowire.AppendVarint(stream, uint64(len(o.Wire)))
		stream = append(stream, o.Wire...)
		frames = append(frames, o.Wire)
	}
	var br *bufio.Reader
	var brSrc *bytes.Reader
	frameNo := 0
	mutations, scribbles, observes, lazyPending := 0, 0, 0, 0

	fail := func(class, format string, a ...any) sim.OpResult {
		return sim.OpResult{Bad: class + ": " + fmt.Sprintf(format, a...)}
	}
	observe := func(k int, when string) string {
		sl := &slots[k]
		if !sl.used {
			return ""
		}
		got, err := detBytes(sl.m)
		if err != nil {
			return fmt.Sprintf("content-changed: slot %d (%s): Marshal failed: %v", k, when, err)
		}
		if !bytes.Equal(got, sl.expected) {
			return fmt.Sprintf("content-changed: slot %d (%s): the message no longer has the content it was given (its memory is shared with something the owner changed)", k, when)
		}
		if !proto.Equal(sl.m, freshFrom(typ, sl.expected)) {
			return fmt.Sprintf("content-changed: slot %d (%s): not Equal to a fresh decode of its expected content", k, when)
		}
		// address check against buffers the message does not own
		var rs [][2]uintptr
		collectSlices(sl.m.ProtoReflect(), &rs, 0)
		for _, ob := range owned {
			lo, hi := sliceRange(ob.b)
			if lo == 0 {
				continue
			}
			for _, r := range rs {
				if r[0] < hi && lo < r[1] {
					return fmt.Sprintf("aliases-caller-buffer: slot %d (%s): a bytes value or unknown-field slice of the message lies inside %s", k, when, ob.what)
				}
			}
		}
		return ""
	}
	x.RunPhase(0, func(client, opi int, op *scn.Op) sim.OpResult {
		k := int(op.N) % nslots
		i := int(op.M) % nslots
		obj := op.Obj % len(s.Objects)
		var seed uint64
		fmt.Sscan(op.S, &seed)
		switch op.Op {
		case "unmarshal", "unmarshal-merge", "reuse":
			wire := s.Objects[obj].Wire
			var buf []byte
			if op.Op == "reuse" && len(owned) > 0 {
				// a pooled buffer: reuse the memory of an earlier input for the next input
				ob := &owned[int(seed)%len(owned)]
				if cap(ob.b) >= len(wire) {
					buf = ob.b[:len(wire)]
					copy(buf, wire)
					x.Fault("scribble")
					scribbles++
				}
			}
			if buf == nil {
				buf = append(make([]byte, 0, len(wire)+int(seed%7)), wire...)
				owned = append(owned, ownedBuf{buf, fmt.Sprintf("the input buffer of op %d", opi)})
			}
			uo := proto.UnmarshalOptions{AllowPartial: true}
			variant := 0
			if len(op.Path) > 0 {
				variant = int(op.Path[0])
			}
			uo.NoLazyDecoding = variant == 1
			uo.DiscardUnknown = variant == 2
			merge := op.Op == "unmarshal-merge" && slots[k].used
			uo.Merge = merge
			if !slots[k].used {
				slots[k].m = c14New(typ)
			}
			if err := uo.Unmarshal(buf, slots[k].m); err != nil {
				slots[k] = c14Slot{} // state after a failed decode is unspecified; inputs here are valid anyway
				return sim.OpResult{}
			}
			// expectation from private copies only
			var p proto.Message
			if merge {
				p = freshFrom(typ, slots[k].expected)
			} else {
				p = c14New(typ)
			}
			po := proto.UnmarshalOptions{AllowPartial: true, NoLazyDecoding: true, DiscardUnknown: uo.DiscardUnknown, Merge: true}
			po.Unmarshal(append([]byte(nil), wire...), p)
			slots[k].expected, _ = detBytes(p)
			slots[k].used = true
			if !uo.NoLazyDecoding {
				lazyPending++
			}
		case "unmarshal-any":
			// through google.protobuf.Any: the payload bytes the Any holds are the caller's too
			wire := s.Objects[obj].Wire
			buf := append(make([]byte, 0, len(wire)+int(seed%7)), wire...)
			owned = append(owned, ownedBuf{buf, fmt.Sprintf("the Any payload of op %d", opi)})
			if !slots[k].used {
				slots[k].m = c14New(typ)
			}
			a := &anypb.Any{TypeUrl: "type.googleapis.com/" + string(slots[k].m.ProtoReflect().Descriptor().FullName()), Value: buf}
			if err := anypb.UnmarshalTo(a, slots[k].m, proto.UnmarshalOptions{AllowPartial: true}); err != nil {
				slots[k] = c14Slot{}
				return sim.OpResult{}
			}
			p := c14New(typ)
			(proto.UnmarshalOptions{AllowPartial: true, NoLazyDecoding: true}).Unmarshal(append([]byte(nil), wire...), p)
			slots[k].expected, _ = detBytes(p)
			slots[k].used = true
			lazyPending++
		case "unmarshal-json", "unmarshal-text":
			// the text codecs read from a caller's buffer too: nothing of the message may point into it
			src := c14New(typ)
			if err := (proto.UnmarshalOptions{AllowPartial: true, NoLazyDecoding: true}).Unmarshal(append([]byte(nil), s.Objects[obj].Wire...), src); err != nil {
				return sim.OpResult{}
			}
			var text []byte
			var err error
			if op.Op == "unmarshal-json" {
				text, err = protojson.MarshalOptions{AllowPartial: true}.Marshal(src)
			} else {
				text, err = prototext.MarshalOptions{AllowPartial: true}.Marshal(src)
			}
			if err != nil || len(text) == 0 {
				return sim.OpResult{}
			}
			buf := append(make([]byte, 0, len(text)+int(seed%7)), text...)
			owned = append(owned, ownedBuf{buf, fmt.Sprintf("the %s input buffer of op %d", strings.TrimPrefix(op.Op, "unmarshal-"), opi)})
			if !slots[k].used {
				slots[k].m = c14New(typ)
			}
			p := c14New(typ)
			if op.Op == "unmarshal-json" {
				err = protojson.UnmarshalOptions{AllowPartial: true}.Unmarshal(buf, slots[k].m)
				protojson.UnmarshalOptions{AllowPartial: true}.Unmarshal(append([]byte(nil), text...), p)
			} else {
				err = prototext.UnmarshalOptions{AllowPartial: true}.Unmarshal(buf, slots[k].m)
				prototext.UnmarshalOptions{AllowPartial: true}.Unmarshal(append([]byte(nil), text...), p)
			}
			if err != nil {
				slots[k] = c14Slot{}
				return sim.OpResult{}
			}
			slots[k].expected, _ = detBytes(p)
			slots[k].used = true
			x.Probe("text-codec-decodes", 1)
		case "unmarshal-from":
			if br == nil {
				brSrc = bytes.NewReader(stream)
				br = bufio.NewReaderSize(brSrc, int(s.P["bufsize"]))
			}
			if frameNo >= len(frames) {
				return sim.OpResult{}
			}
			if !slots[k].used {
				slots[k].m = c14New(typ)
			}
			err := protodelim.UnmarshalOptions{UnmarshalOptions: proto.UnmarshalOptions{AllowPartial: true}}.UnmarshalFrom(br, slots[k].m)
			if err != nil {
				return fail("unmarshal-from", "frame %d: %v", frameNo, err)
			}
			p := c14New(typ)
			(proto.UnmarshalOptions{AllowPartial: true, NoLazyDecoding: true}).Unmarshal(append([]byte(nil), frames[frameNo]...), p)
			slots[k].expected, _ = detBytes(p)
			slots[k].used = true
			frameNo++
			x.Probe("frames-through-bufio", 1)
		case "clone":
			if !slots[i].used || i == k {
				return sim.OpResult{}
			}
			slots[k].m = proto.Clone(slots[i].m)
			slots[k].expected = append([]byte(nil), slots[i].expected...)
			slots[k].used = true
			x.Probe("clones", 1)
		case "merge":
			if !slots[i].used || i == k {
				return sim.OpResult{}
			}
			if !slots[k].used {
				slots[k].m = c14New(typ)
				slots[k].used = true
			}
			proto.Merge(slots[k].m, slots[i].m)
			p, q := freshFrom(typ, slots[k].expected), freshFrom(typ, slots[i].expected)
			proto.Merge(p, q)
			slots[k].expected, _ = detBytes(p)
			x.Probe("merges", 1)
		case "scribble":
			if len(owned) == 0 {
				return sim.OpResult{}
			}
			ob := &owned[int(seed)%len(owned)]
			full := ob.b[:cap(ob.b)]
			for j := range full {
				full[j] = ^full[j]
			}
			x.Fault("scribble")
			scribbles++
		case "mutate":
			if !slots[k].used {
				return sim.OpResult{}
			}
			n := mutateInPlace(sim.NewRng(seed), slots[k].m.ProtoReflect(), 0)
			p := freshFrom(typ, slots[k].expected)
			mutateInPlace(sim.NewRng(seed), p.ProtoReflect(), 0)
			slots[k].expected, _ = detBytes(p)
			if n > 0 {
				x.Fault("owner-mutation")
				mutations++
			}
		case "observe":
			observes++
			if msg := observe(k, fmt.Sprintf("observed at op %d", opi)); msg != "" {
				return sim.OpResult{Bad: msg}
			}
		}
		return sim.OpResult{}
	})
	if x.Failed() {
		return
	}
	// the bufio reader goes on: drain it so that its buffer is overwritten
	if br != nil {
		var sink [64]byte
		for {
			if _, err := br.Read(sink[:]); err != nil {
				break
			}
		}
		x.Fault("reader-buffer-reused")
	}
	// final: scribble everything the harness owns, then observe every slot
	for _, ob := range owned {
		full := ob.b[:cap(ob.b)]
		for j := range full {
			full[j] ^= 0x5a
		}
	}
	if len(owned) > 0 {
		x.Fault("scribble")
	}
	for k := range slots {
		if msg := observe(k, "at the end, after every input buffer was overwritten"); msg != "" {
			cls, det := msg, msg
			if j := strings.Index(msg, ": "); j > 0 {
				cls, det = msg[:j], msg[j+2:]
			}
			x.Fail(cls, "%s", det)
			return
		}
	}
	// no two slots share a byte slice
	var all [][][2]uintptr
	for k := range slots {
		var rs [][2]uintptr
		if slots[k].used {
			collectSlices(slots[k].m.ProtoReflect(), &rs, 0)
		}
		all = append(all, rs)
	}
	for a := range all {
		for b := a + 1; b < len(all); b++ {
			for _, ra := range all[a] {
				for _, rb := range all[b] {
					if ra[0] < rb[1] && rb[0] < ra[1] {
						x.Fail("slots-share-memory", "slots %d and %d hold byte slices with overlapping backing arrays", a, b)
						return
					}
				}
			}
		}
	}
	if mutations+scribbles > 0 {
		shape := typ
		for _, op := range s.Phases[0].Clients[0] {
			shape += "," + op.Op
		}
		x.Key(sim.HashStr(shape))
	}
	_ = observes
	x.Probe("lazy-decodes-before-scribble", int64(lazyPending))
}
