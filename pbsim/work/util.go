// Package work contains one workload (scenario generator, executor, oracle)
// per claimed property.
package work

import (
	"google.golang.org/protobuf/proto"
	"google.golang.org/protobuf/reflect/protoreflect"
)

func protoValueBytes(b []byte) protoreflect.Value { return protoreflect.ValueOfBytes(b) }

// bytesField returns a singular bytes field of m that is not part of a oneof.
func bytesField(m proto.Message) protoreflect.FieldDescriptor {
	fds := m.ProtoReflect().Descriptor().Fields()
	for i := 0; i < fds.Len(); i++ {
		fd := fds.Get(i)
		if fd.Kind() == protoreflect.BytesKind && !fd.IsList() && fd.ContainingOneof() == nil {
			return fd
		}
	}
	return nil
}
