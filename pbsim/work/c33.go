package work

import (
	"encoding/json"
	"fmt"
	"sort"
	"strings"
	"time"

	"github.com/anishathalye/porcupine"
	"google.golang.org/protobuf/internal/simcore"
	"google.golang.org/protobuf/proto"
	"google.golang.org/protobuf/reflect/protodesc"
	"google.golang.org/protobuf/reflect/protoreflect"
	"google.golang.org/protobuf/reflect/protoregistry"
	"google.golang.org/protobuf/types/descriptorpb"
	"google.golang.org/protobuf/types/dynamicpb"
	"google.golang.org/protobuf/zverifsim/model"
	"google.golang.org/protobuf/zverifsim/scn"
	"google.golang.org/protobuf/zverifsim/sim"
)

// C33 — registries behave like a conflict-checking name table.
type c33 struct{}

func init() { sim.Register(c33{}) }

func (c33) ID() string { return "C33" }

var (
	c33Pkgs  = []string{"a", "a.b", "a.b.c", "b", "a.M", ""}
	c33Paths = []string{"p1.proto", "p2.proto", "p3.proto", "q/p1.proto", "p4.proto"}
	c33Pool  = []string{"M", "N", "E", "V", "S", "x", "b", "c", "W"}
)

const c33BasePath = "base/base.proto"

func c33BaseProto() *descriptorpb.FileDescriptorProto {
	return &descriptorpb.FileDescriptorProto{
		Name:    proto.String(c33BasePath),
		Package: proto.String("x"),
		Syntax:  proto.String("proto2"),
		MessageType: []*descriptorpb.DescriptorProto{{
			Name:           proto.String("Base"),
			ExtensionRange: []*descriptorpb.DescriptorProto_ExtensionRange{{Start: proto.Int32(1), End: proto.Int32(1000)}},
		}, {
			Name:           proto.String("Base2"),
			ExtensionRange: []*descriptorpb.DescriptorProto_ExtensionRange{{Start: proto.Int32(1), End: proto.Int32(1000)}},
		}},
	}
}

func c33GenEnum(r *sim.Rng, used map[string]bool) (model.UEnum, bool) {
	name := c33Pool[r.Intn(len(c33Pool))]
	if used[name] {
		return model.UEnum{}, false
	}
	e := model.UEnum{Name: name}
	used[name] = true
	for i, n := 0, r.Range(1, 2); i < n; i++ {
		v := c33Pool[r.Intn(len(c33Pool))]
		if used[v] {
			continue
		}
		used[v] = true
		e.Values = append(e.Values, v)
	}
	if len(e.Values) == 0 {
		// an enum needs a value: find any free name
		for _, v := range c33Pool {
			if !used[v] {
				used[v] = true
				e.Values = []string{v}
				break
			}
		}
	}
	return e, len(e.Values) > 0
}

func c33GenMsg(r *sim.Rng, used map[string]bool, depth int) (model.UMsg, bool) {
	name := c33Pool[r.Intn(len(c33Pool))]
	if used[name] {
		return model.UMsg{}, false
	}
	used[name] = true
	m := model.UMsg{Name: name}
	in := map[string]bool{}
	for i, n := 0, r.Intn(3); i < n; i++ {
		f := c33Pool[r.Intn(len(c33Pool))]
		if !in[f] {
			in[f] = true
			m.Fields = append(m.Fields, f)
		}
	}
	if r.Chance(1, 3) {
		o := c33Pool[r.Intn(len(c33Pool))]
		if !in[o] && !in[o+"_f"] {
			in[o], in[o+"_f"] = true, true
			m.Oneofs = append(m.Oneofs, o)
		}
	}
	if r.Chance(1, 3) {
		if e, ok := c33GenEnum(r, in); ok {
			m.Enums = append(m.Enums, e)
		}
	}
	if r.Chance(1, 4) {
		x := c33Pool[r.Intn(len(c33Pool))]
		if !in[x] {
			in[x] = true
			m.Exts = append(m.Exts, model.UExt{Name: x, Number: int32(r.Range(1, 3))})
		}
	}
	if depth < 2 && r.Chance(1, 2) {
		if nm, ok := c33GenMsg(r, in, depth+1); ok {
			m.Nested = append(m.Nested, nm)
		}
	}
	return m, true
}

func c33GenFile(r *sim.Rng) model.UFile {
	f := model.UFile{Path: c33Paths[r.Intn(len(c33Paths))], Pkg: c33Pkgs[r.Intn(len(c33Pkgs))]}
	used := map[string]bool{}
	for i, n := 0, r.Intn(3); i < n; i++ {
		if m, ok := c33GenMsg(r, used, 0); ok {
			f.Msgs = append(f.Msgs, m)
		}
	}
	if r.Chance(1, 2) {
		if e, ok := c33GenEnum(r, used); ok {
			f.Enums = append(f.Enums, e)
		}
	}
	if r.Chance(1, 3) {
		x := c33Pool[r.Intn(len(c33Pool))]
		if !used[x] {
			used[x] = true
			f.Exts = append(f.Exts, model.UExt{Name: x, Number: int32(r.Range(1, 3))})
		}
	}
	if r.Chance(1, 4) {
		sn := c33Pool[r.Intn(len(c33Pool))]
		if !used[sn] {
			used[sn] = true
			f.Svcs = append(f.Svcs, model.USvc{Name: sn, Methods: []string{c33Pool[r.Intn(len(c33Pool))]}})
		}
	}
	if len(f.Msgs)+len(f.Enums)+len(f.Exts)+len(f.Svcs) == 0 {
		f.Msgs = []model.UMsg{{Name: "M"}}
	}
	return f
}

func c33EnumProto(e *model.UEnum) *descriptorpb.EnumDescriptorProto {
	p := &descriptorpb.EnumDescriptorProto{Name: proto.String(e.Name)}
	for i, v := range e.Values {
		p.Value = append(p.Value, &descriptorpb.EnumValueDescriptorProto{Name: proto.String(v), Number: proto.Int32(int32(i))})
	}
	return p
}

func c33ExtProto(x *model.UExt, extendee string) *descriptorpb.FieldDescriptorProto {
	return &descriptorpb.FieldDescriptorProto{
		Name: proto.String(x.Name), Number: proto.Int32(x.Number), Extendee: proto.String(extendee),
		Label: descriptorpb.FieldDescriptorProto_LABEL_OPTIONAL.Enum(), Type: descriptorpb.FieldDescriptorProto_TYPE_INT32.Enum(),
	}
}

func c33MsgProto(m *model.UMsg) *descriptorpb.DescriptorProto {
	p := &descriptorpb.DescriptorProto{Name: proto.String(m.Name)}
	num := int32(1)
	for _, f := range m.Fields {
		p.Field = append(p.Field, &descriptorpb.FieldDescriptorProto{Name: proto.String(f), Number: proto.Int32(num), JsonName: proto.String(fmt.Sprintf("j%d", num)),
			Label: descriptorpb.FieldDescriptorProto_LABEL_OPTIONAL.Enum(), Type: descriptorpb.FieldDescriptorProto_TYPE_INT32.Enum()})
		num++
	}
	for i, o := range m.Oneofs {
		p.OneofDecl = append(p.OneofDecl, &descriptorpb.OneofDescriptorProto{Name: proto.String(o)})
		p.Field = append(p.Field, &descriptorpb.FieldDescriptorProto{Name: proto.String(o + "_f"), Number: proto.Int32(num), JsonName: proto.String(fmt.Sprintf("j%d", num)), OneofIndex: proto.Int32(int32(i)),
			Label: descriptorpb.FieldDescriptorProto_LABEL_OPTIONAL.Enum(), Type: descriptorpb.FieldDescriptorProto_TYPE_INT32.Enum()})
		num++
	}
	for i := range m.Enums {
		p.EnumType = append(p.EnumType, c33EnumProto(&m.Enums[i]))
	}
	for i := range m.Exts {
		p.Extension = append(p.Extension, c33ExtProto(&m.Exts[i], ".x.Base"))
	}
	for i := range m.Nested {
		p.NestedType = append(p.NestedType, c33MsgProto(&m.Nested[i]))
	}
	return p
}

func c33FileProto(f *model.UFile) *descriptorpb.FileDescriptorProto {
	p := &descriptorpb.FileDescriptorProto{Name: proto.String(f.Path), Package: proto.String(f.Pkg), Syntax: proto.String("proto2"), Dependency: []string{c33BasePath}}
	for i := range f.Msgs {
		p.MessageType = append(p.MessageType, c33MsgProto(&f.Msgs[i]))
	}
	for i := range f.Enums {
		p.EnumType = append(p.EnumType, c33EnumProto(&f.Enums[i]))
	}
	for i := range f.Exts {
		p.Extension = append(p.Extension, c33ExtProto(&f.Exts[i], ".x.Base"))
	}
	for _, s := range f.Svcs {
		sp := &descriptorpb.ServiceDescriptorProto{Name: proto.String(s.Name)}
		for _, m := range s.Methods {
			sp.Method = append(sp.Method, &descriptorpb.MethodDescriptorProto{Name: proto.String(m), InputType: proto.String(".x.Base"), OutputType: proto.String(".x.Base")})
		}
		p.Service = append(p.Service, sp)
	}
	return p
}

// c33World is the universe realised as descriptors and types.
type c33World struct {
	u      *model.Universe
	files  []protoreflect.FileDescriptor
	mts    []protoreflect.MessageType // per universe type (nil if not a message)
	ets    []protoreflect.EnumType
	xts    []protoreflect.ExtensionType
	names  []string // lookup probes
	fileID map[protoreflect.FileDescriptor]int
}

func c33Build(u *model.Universe, deriveTypes bool) (*c33World, error) {
	w := &c33World{u: u, fileID: map[protoreflect.FileDescriptor]int{}}
	builder := new(protoregistry.Files)
	base, err := protodesc.NewFile(c33BaseProto(), builder)
	if err != nil {
		return nil, err
	}
	builder.RegisterFile(base)
	for i := range u.Files {
		fd, err := protodesc.NewFile(c33FileProto(&u.Files[i]), builder)
		if err != nil {
			return nil, fmt.Errorf("file %d: %v", i, err)
		}
		w.files = append(w.files, fd)
		w.fileID[fd] = i
	}
	if deriveTypes {
		u.Types = nil
	}
	byName := map[string][]protoreflect.Descriptor{}
	var walkMsgs func(ms protoreflect.MessageDescriptors, fi int)
	add := func(d protoreflect.Descriptor, fi int) {
		byName[fmt.Sprintf("%d:%s", fi, d.FullName())] = append(byName[fmt.Sprintf("%d:%s", fi, d.FullName())], d)
	}
	walkMsgs = func(ms protoreflect.MessageDescriptors, fi int) {
		for i := 0; i < ms.Len(); i++ {
			m := ms.Get(i)
			add(m, fi)
			for j := 0; j < m.Enums().Len(); j++ {
				add(m.Enums().Get(j), fi)
			}
			for j := 0; j < m.Extensions().Len(); j++ {
				add(m.Extensions().Get(j), fi)
			}
			walkMsgs(m.Messages(), fi)
		}
	}
	for fi, fd := range w.files {
		walkMsgs(fd.Messages(), fi)
		for j := 0; j < fd.Enums().Len(); j++ {
			add(fd.Enums().Get(j), fi)
		}
		for j := 0; j < fd.Extensions().Len(); j++ {
			add(fd.Extensions().Get(j), fi)
		}
	}
	if deriveTypes {
		// the type universe: every message, enum and extension of every file, by name (the model's view)
		for fi := range u.Files {
			for _, d := range u.Files[fi].AllDecls() {
				switch d.Kind {
				case "message", "enum":
					u.Types = append(u.Types, model.UType{Name: d.Name, Kind: d.Kind, File: fi})
				case "extension":
					u.Types = append(u.Types, model.UType{Name: d.Name, Kind: d.Kind, File: fi, ExtMsg: "x.Base", ExtNum: d.Num})
				}
			}
		}
		if len(u.Types) > 40 {
			u.Types = u.Types[:40]
		}
	}
	w.mts = make([]protoreflect.MessageType, len(u.Types))
	w.ets = make([]protoreflect.EnumType, len(u.Types))
	w.xts = make([]protoreflect.ExtensionType, len(u.Types))
	for ti := range u.Types {
		t := &u.Types[ti]
		ds := byName[fmt.Sprintf("%d:%s", t.File, t.Name)]
		if len(ds) == 0 {
			return nil, fmt.Errorf("type %s of file %d not found in descriptors", t.Name, t.File)
		}
		switch d := ds[0].(type) {
		case protoreflect.MessageDescriptor:
			w.mts[ti] = dynamicpb.NewMessageType(d)
		case protoreflect.EnumDescriptor:
			w.ets[ti] = dynamicpb.NewEnumType(d)
		case protoreflect.ExtensionDescriptor:
			w.xts[ti] = dynamicpb.NewExtensionType(d)
		}
	}
	w.names = u.AllNames()
	w.names = append(w.names, "zz", "a.zz", "a.b.c.d", "x.Base", "a.M.zz", "")
	return w, nil
}

func c33Kind(d protoreflect.Descriptor) string {
	switch d.(type) {
	case protoreflect.MessageDescriptor:
		return "message"
	case protoreflect.EnumDescriptor:
		return "enum"
	case protoreflect.EnumValueDescriptor:
		return "enumvalue"
	case protoreflect.FieldDescriptor: // includes extensions
		if d.(protoreflect.FieldDescriptor).IsExtension() {
			return "extension"
		}
		return "field"
	case protoreflect.OneofDescriptor:
		return "oneof"
	case protoreflect.ServiceDescriptor:
		return "service"
	case protoreflect.MethodDescriptor:
		return "method"
	}
	return fmt.Sprintf("%T", d)
}

func idsString(ids []int) string {
	sort.Ints(ids)
	var b strings.Builder
	for i, id := range ids {
		if i > 0 {
			b.WriteByte(',')
		}
		fmt.Fprint(&b, id)
	}
	return b.String()
}

var c33FileOps = []string{"reg-file", "reg-file", "reg-file", "find", "find", "find", "find-path", "num-files", "range-files", "num-by-pkg", "range-by-pkg"}
var c33TypeOps = []string{"reg-type", "reg-type", "reg-type", "find-msg", "find-enum", "find-ext", "find-ext-num", "find-url", "num-types", "range-types", "range-ext-of"}
var c33ReadFileOps = []string{"find", "find", "find", "find-path", "num-files", "range-files", "num-by-pkg", "range-by-pkg"}
var c33ReadTypeOps = []string{"find-msg", "find-enum", "find-ext", "find-ext-num", "find-url", "num-types", "range-types", "range-ext-of"}

// c33URL writes a type URL for name in one of several shapes, some of which do not name it at all.
func c33URL(name string, m int64) string {
	switch (m / 4) % 8 {
	case 0:
		return name
	case 1:
		return "a/b/" + name
	case 2:
		return name + "/" // nothing follows the last slash: names no type
	case 3:
		return "host/" + name + "//"
	case 4:
		return "/" + name
	case 5:
		return name + "/x"
	}
	return "type.googleapis.com/" + name
}

func c33URLName(url string) string {
	if i := strings.LastIndexByte(url, '/'); i >= 0 {
		return url[i+1:]
	}
	return url
}

func c33RandOp(r *sim.Rng, pool []string) scn.Op {
	return scn.Op{Op: pool[r.Intn(len(pool))], N: int64(r.Intn(1 << 20)), M: int64(r.Intn(1 << 20))}
}

func (c33) Gen(r *sim.Rng, tier string) *scn.Scn {
	s := &scn.Scn{P: map[string]int64{}}
	u := &model.Universe{}
	nf := r.Range(4, 9)
	for len(u.Files) < nf {
		f := c33GenFile(r)
		tu := &model.Universe{Files: []model.UFile{f}}
		if _, err := c33Build(tu, true); err != nil {
			continue // the generator produced an invalid file; draw another
		}
		u.Files = append(u.Files, f)
	}
	if _, err := c33Build(u, true); err != nil {
		panic("c33: universe does not build: " + err.Error())
	}
	s.Data, _ = json.Marshal(u)
	switch r.Intn(10) {
	case 0, 1, 2, 3:
		s.Mode = "sequential"
		s.NoDryRun = true
		var ops []scn.Op
		for i, n := 0, r.Range(6, 30); i < n; i++ {
			if r.Chance(1, 2) {
				ops = append(ops, c33RandOp(r, c33FileOps))
			} else {
				ops = append(ops, c33RandOp(r, c33TypeOps))
			}
		}
		s.Phases = []scn.Phase{{Clients: [][]scn.Op{ops}, Sched: scn.Sched{Kind: "tape"}}}
	case 4, 5, 6:
		s.Mode = "phased"
		for p, np := 0, r.Range(2, 4); p < np; p++ {
			var reg []scn.Op
			for i, n := 0, r.Range(1, 4); i < n; i++ {
				if r.Bool() {
					reg = append(reg, scn.Op{Op: "reg-file", N: int64(r.Intn(1 << 20))})
				} else {
					reg = append(reg, scn.Op{Op: "reg-type", N: int64(r.Intn(1 << 20))})
				}
			}
			s.Phases = append(s.Phases, scn.Phase{Name: "register (exclusive)", Clients: [][]scn.Op{reg}, Sched: scn.Sched{Kind: "tape"}})
			ph := scn.Phase{Name: "lookups (concurrent)", Sched: randSched(r)}
			for c, nc := 0, r.Range(2, 4); c < nc; c++ {
				var ops []scn.Op
				for i, n := 0, r.Range(2, 6); i < n; i++ {
					if r.Bool() {
						ops = append(ops, c33RandOp(r, c33ReadFileOps))
					} else {
						ops = append(ops, c33RandOp(r, c33ReadTypeOps))
					}
				}
				ph.Clients = append(ph.Clients, ops)
			}
			s.Phases = append(s.Phases, ph)
		}
	default:
		s.Mode = "global"
		ph := scn.Phase{Sched: randSched(r)}
		total := 0
		for c, nc := 0, r.Range(2, 4); c < nc; c++ {
			var ops []scn.Op
			for i, n := 0, r.Range(2, 8); i < n && total < 28; i++ {
				if r.Bool() {
					ops = append(ops, c33RandOp(r, c33FileOps))
				} else {
					ops = append(ops, c33RandOp(r, c33TypeOps))
				}
				total++
			}
			ph.Clients = append(ph.Clients, ops)
		}
		s.Phases = []scn.Phase{ph}
	}
	return s
}

// c33State is the abstract state of both registries.
type c33State struct {
	F model.FilesState
	T model.TypesState
}

// c33Expect computes the model's answer for op in state st and the next state.
// global: registration conflicts panic (policy of the global registries).
func c33Expect(w *c33World, st c33State, op *scn.Op, global bool) (string, c33State) {
	u := w.u
	fail := "err"
	if global {
		fail = "panic"
	}
	switch op.Op {
	case "reg-file":
		i := int(op.N) % len(u.Files)
		ok, ns := u.RegisterFile(st.F, i)
		if !ok {
			return fail, st
		}
		st.F = ns
		return "ok", st
	case "find":
		name := w.names[int(op.N)%len(w.names)]
		kind, fi := u.Find(st.F, name)
		if fi < 0 {
			return "notfound", st
		}
		return fmt.Sprintf("%s@%d", kind, fi), st
	case "find-path":
		p := c33Paths[int(op.N)%len(c33Paths)]
		if fi := u.FileByPath(st.F, p); fi >= 0 {
			return fmt.Sprint("file@", fi), st
		}
		return "notfound", st
	case "num-files":
		return fmt.Sprint(len(u.FilesOf(st.F, "*"))), st
	case "range-files":
		return idsString(u.FilesOf(st.F, "*")), st
	case "num-by-pkg":
		return fmt.Sprint(len(u.FilesOf(st.F, c33Pkgs[int(op.N)%len(c33Pkgs)]))), st
	case "range-by-pkg":
		return idsString(u.FilesOf(st.F, c33Pkgs[int(op.N)%len(c33Pkgs)])), st
	}
	if len(u.Types) == 0 {
		return "none", st
	}
	ti := int(op.N) % len(u.Types)
	t := &u.Types[ti]
	findRes := func(j int) string {
		switch j {
		case -1:
			return "notfound"
		case -2:
			return "wrongkind"
		}
		return fmt.Sprint("type@", j)
	}
	switch op.Op {
	case "reg-type":
		ok, ns := u.RegisterType(st.T, ti)
		if !ok {
			return fail, st
		}
		st.T = ns
		return "ok", st
	case "find-msg":
		return findRes(u.FindType(st.T, t.Name, "message")), st
	case "find-url":
		// the name is what follows the last slash of the URL; nothing else of the URL matters
		return findRes(u.FindType(st.T, c33URLName(c33URL(t.Name, op.M)), "message")), st
	case "find-enum":
		return findRes(u.FindType(st.T, t.Name, "enum")), st
	case "find-ext":
		return findRes(u.FindType(st.T, t.Name, "extension")), st
	case "find-ext-num":
		return findRes(u.FindExtByNumber(st.T, "x.Base", int32(op.M%4)+1)), st
	case "num-types":
		kinds := []string{"message", "enum", "extension"}
		k := kinds[int(op.M)%3]
		return fmt.Sprint(len(u.TypesOf(st.T, k))), st
	case "range-types":
		kinds := []string{"message", "enum", "extension"}
		k := kinds[int(op.M)%3]
		return idsString(u.TypesOf(st.T, k)), st
	case "range-ext-of":
		if op.M%2 == 1 {
			return fmt.Sprint(len(u.TypesOf(st.T, "extension"))), st
		}
		return idsString(u.TypesOf(st.T, "extension")), st
	}
	return "?", st
}

// c33Apply executes op against the real registries and renders the result.
func c33Apply(w *c33World, files *protoregistry.Files, types *protoregistry.Types, op *scn.Op) string {
	u := w.u
	errStr := func(err error) string {
		if err == protoregistry.NotFound {
			return "notfound"
		}
		if strings.Contains(err.Error(), "found wrong type") {
			return "wrongkind"
		}
		return "err"
	}
	switch op.Op {
	case "reg-file":
		i := int(op.N) % len(u.Files)
		var err error
		if p := sim.Protect(func() { err = files.RegisterFile(w.files[i]) }); p != "" {
			return "panic"
		}
		if err != nil {
			return "err"
		}
		return "ok"
	case "find":
		name := w.names[int(op.N)%len(w.names)]
		d, err := files.FindDescriptorByName(protoreflect.FullName(name))
		if err != nil {
			return errStr(err)
		}
		if string(d.FullName()) != name {
			return "wrong-name:" + string(d.FullName())
		}
		return fmt.Sprintf("%s@%d", c33Kind(d), w.fileID[d.ParentFile()])
	case "find-path":
		p := c33Paths[int(op.N)%len(c33Paths)]
		fd, err := files.FindFileByPath(p)
		if err != nil {
			return errStr(err)
		}
		return fmt.Sprint("file@", w.fileID[fd])
	case "num-files":
		return fmt.Sprint(files.NumFiles())
	case "range-files":
		var ids []int
		files.RangeFiles(func(fd protoreflect.FileDescriptor) bool { ids = append(ids, w.fileID[fd]); return true })
		return idsString(ids)
	case "num-by-pkg":
		return fmt.Sprint(files.NumFilesByPackage(protoreflect.FullName(c33Pkgs[int(op.N)%len(c33Pkgs)])))
	case "range-by-pkg":
		var ids []int
		files.RangeFilesByPackage(protoreflect.FullName(c33Pkgs[int(op.N)%len(c33Pkgs)]), func(fd protoreflect.FileDescriptor) bool { ids = append(ids, w.fileID[fd]); return true })
		return idsString(ids)
	}
	if len(u.Types) == 0 {
		return "none"
	}
	ti := int(op.N) % len(u.Types)
	t := &u.Types[ti]
	typeID := func(v any) string {
		for j := range u.Types {
			switch x := v.(type) {
			case protoreflect.MessageType:
				if w.mts[j] != nil && w.mts[j] == x {
					return fmt.Sprint("type@", j)
				}
			case protoreflect.EnumType:
				if w.ets[j] != nil && w.ets[j] == x {
					return fmt.Sprint("type@", j)
				}
			case protoreflect.ExtensionType:
				if w.xts[j] != nil && w.xts[j] == x {
					return fmt.Sprint("type@", j)
				}
			}
		}
		return "type@?"
	}
	idOf := func(v any) int {
		var j int
		fmt.Sscanf(typeID(v), "type@%d", &j)
		return j
	}
	switch op.Op {
	case "reg-type":
		var err error
		p := sim.Protect(func() {
			switch {
			case w.mts[ti] != nil:
				err = types.RegisterMessage(w.mts[ti])
			case w.ets[ti] != nil:
				err = types.RegisterEnum(w.ets[ti])
			case w.xts[ti] != nil:
				err = types.RegisterExtension(w.xts[ti])
			}
		})
		if p != "" {
			return "panic"
		}
		if err != nil {
			return "err"
		}
		return "ok"
	case "find-msg":
		mt, err := types.FindMessageByName(protoreflect.FullName(t.Name))
		if err != nil {
			return errStr(err)
		}
		return typeID(mt)
	case "find-url":
		mt, err := types.FindMessageByURL(c33URL(t.Name, op.M))
		if err != nil {
			return errStr(err)
		}
		return typeID(mt)
	case "find-enum":
		et, err := types.FindEnumByName(protoreflect.FullName(t.Name))
		if err != nil {
			return errStr(err)
		}
		return typeID(et)
	case "find-ext":
		xt, err := types.FindExtensionByName(protoreflect.FullName(t.Name))
		if err != nil {
			return errStr(err)
		}
		return typeID(xt)
	case "find-ext-num":
		xt, err := types.FindExtensionByNumber("x.Base", protoreflect.FieldNumber(op.M%4+1))
		if err != nil {
			return errStr(err)
		}
		return typeID(xt)
	case "num-types":
		switch op.M % 3 {
		case 0:
			return fmt.Sprint(types.NumMessages())
		case 1:
			return fmt.Sprint(types.NumEnums())
		}
		return fmt.Sprint(types.NumExtensions())
	case "range-types":
		var ids []int
		switch op.M % 3 {
		case 0:
			types.RangeMessages(func(mt protoreflect.MessageType) bool { ids = append(ids, idOf(mt)); return true })
		case 1:
			types.RangeEnums(func(et protoreflect.EnumType) bool { ids = append(ids, idOf(et)); return true })
		default:
			types.RangeExtensions(func(xt protoreflect.ExtensionType) bool { ids = append(ids, idOf(xt)); return true })
		}
		return idsString(ids)
	case "range-ext-of":
		// one registry call per operation: a composite would not be atomic
		if op.M%2 == 1 {
			return fmt.Sprint(types.NumExtensionsByMessage("x.Base"))
		}
		var ids []int
		types.RangeExtensionsByMessage("x.Base", func(xt protoreflect.ExtensionType) bool { ids = append(ids, idOf(xt)); return true })
		return idsString(ids)
	}
	return "?"
}

// c33Observe renders everything observable about the registries (failure atomicity).
func c33Observe(w *c33World, files *protoregistry.Files, types *protoregistry.Types) uint64 {
	h := newHasher()
	for i := range w.names {
		h.s(c33Apply(w, files, types, &scn.Op{Op: "find", N: int64(i)}))
	}
	for i := range c33Paths {
		h.s(c33Apply(w, files, types, &scn.Op{Op: "find-path", N: int64(i)}))
	}
	for i := range c33Pkgs {
		h.s(c33Apply(w, files, types, &scn.Op{Op: "range-by-pkg", N: int64(i)}))
	}
	h.s(c33Apply(w, files, types, &scn.Op{Op: "range-files"}))
	for i := range w.u.Types {
		for _, o := range []string{"find-msg", "find-enum", "find-ext"} {
			h.s(c33Apply(w, files, types, &scn.Op{Op: o, N: int64(i)}))
		}
	}
	for m := int64(0); m < 4; m++ {
		h.s(c33Apply(w, files, types, &scn.Op{Op: "find-ext-num", M: m}))
		h.s(c33Apply(w, files, types, &scn.Op{Op: "range-types", M: m}))
		h.s(c33Apply(w, files, types, &scn.Op{Op: "num-types", M: m}))
	}
	h.s(c33Apply(w, files, types, &scn.Op{Op: "range-ext-of"}))
	h.s(c33Apply(w, files, types, &scn.Op{Op: "range-ext-of", M: 1}))
	return h.h
}

type c33Event struct {
	op        *scn.Op
	out       string
	call, ret int64
	client    int
}

func (c33) Run(s *scn.Scn, x *sim.Exec) {
	u := &model.Universe{}
	if json.Unmarshal(s.Data, u) != nil || len(u.Files) == 0 || len(s.Phases) == 0 {
		return
	}
	w, err := c33Build(u, true)
	if err != nil {
		return
	}
	global := s.Mode == "global"
	files, types := new(protoregistry.Files), new(protoregistry.Types)
	var savedF *protoregistry.Files
	var savedT *protoregistry.Types
	if global {
		savedF, savedT = protoregistry.GlobalFiles, protoregistry.GlobalTypes
		protoregistry.GlobalFiles, protoregistry.GlobalTypes = files, types
		defer func() { protoregistry.GlobalFiles, protoregistry.GlobalTypes = savedF, savedT }()
	}
	st := c33State{}
	conflicts, regs := 0, 0
	for pi := range s.Phases {
		ph := &s.Phases[pi]
		if len(ph.Clients) == 1 {
			// exclusive phase: operation-by-operation equality with the model
			x.RunPhase(pi, func(client, opi int, op *scn.Op) sim.OpResult {
				want, ns := c33Expect(w, st, op, global)
				var before uint64
				isReg := op.Op == "reg-file" || op.Op == "reg-type"
				if isReg && want != "ok" {
					before = c33Observe(w, files, types)
				}
				got := c33Apply(w, files, types, op)
				if got != want {
					return sim.OpResult{Bad: fmt.Sprintf("model-mismatch:%s: %s(%d,%d) returned %q, the name-table model says %q (registered files %b, types %b)", op.Op, op.Op, op.N, op.M, got, want, st.F, st.T)}
				}
				if isReg {
					regs++
					if want != "ok" {
						conflicts++
						if after := c33Observe(w, files, types); after != before {
							return sim.OpResult{Bad: fmt.Sprintf("failed-registration-changed-state: %s(%d) failed but lookups/ranges/counts differ afterwards", op.Op, op.N)}
						}
					}
				}
				st = ns
				return sim.OpResult{Digest: sim.HashStr(got)}
			})
			if x.Failed() {
				return
			}
			continue
		}
		if !global {
			// concurrent lookups against a fixed state
			fixed := st
			x.RunPhase(pi, func(client, opi int, op *scn.Op) sim.OpResult {
				want, _ := c33Expect(w, fixed, op, false)
				got := c33Apply(w, files, types, op)
				if got != want {
					return sim.OpResult{Bad: fmt.Sprintf("model-mismatch:%s: concurrent %s(%d,%d) returned %q, the model says %q", op.Op, op.Op, op.N, op.M, got, want)}
				}
				return sim.OpResult{Digest: sim.HashStr(got)}
			})
			x.Probe("concurrent-lookup-phases", 1)
			if x.Failed() {
				return
			}
			continue
		}
		// global mode: everything concurrent; record the history
		hist := make([][]c33Event, len(ph.Clients))
		x.RunPhase(pi, func(client, opi int, op *scn.Op) sim.OpResult {
			ev := c33Event{op: op, client: client, call: simcore.Stamp()}
			ev.out = c33Apply(w, files, types, op)
			ev.ret = simcore.Stamp()
			hist[client] = append(hist[client], ev)
			return sim.OpResult{Digest: sim.HashStr(ev.out), Relaxed: true}
		})
		if x.Failed() {
			return
		}
		var ops []porcupine.Operation
		for c := range hist {
			for _, ev := range hist[c] {
				ops = append(ops, porcupine.Operation{ClientId: c, Input: ev.op, Call: ev.call, Output: ev.out, Return: ev.ret})
				if ev.out == "panic" {
					conflicts++
				}
				if ev.op.Op == "reg-file" || ev.op.Op == "reg-type" {
					regs++
				}
			}
		}
		m := porcupine.Model{
			Init: func() interface{} { return c33State{} },
			Step: func(state, input, output interface{}) (bool, interface{}) {
				want, ns := c33Expect(w, state.(c33State), input.(*scn.Op), true)
				return want == output.(string), ns
			},
			Equal: func(a, b interface{}) bool { return a.(c33State) == b.(c33State) },
			DescribeOperation: func(input, output interface{}) string {
				op := input.(*scn.Op)
				return fmt.Sprintf("%s(%d,%d) -> %s", op.Op, op.N, op.M, output)
			},
		}
		res := porcupine.CheckOperationsTimeout(m, ops, 20*time.Second)
		x.Probe("histories-checked-by-porcupine", 1)
		switch res {
		case porcupine.Illegal:
			var b strings.Builder
			for _, o := range ops {
				fmt.Fprintf(&b, "  client %d [%d,%d] %s\n", o.ClientId, o.Call, o.Return, m.DescribeOperation(o.Input, o.Output))
			}
			x.Fail("not-linearizable", "the recorded history of %d operations on the global registries has no linearization against the name-table model:\n%s", len(ops), b.String())
			return
		case porcupine.Unknown:
			x.Probe("inconclusive-porcupine-timeouts", 1)
		}
	}
	x.Probe("registrations", int64(regs))
	x.Probe("registration-conflicts", int64(conflicts))
	switch s.Mode {
	case "sequential":
		x.Probe("mode-sequential", 1)
	case "phased":
		x.Probe("mode-phased", 1)
	case "global":
		x.Probe("mode-global", 1)
	}
	shape := s.Mode
	for _, ph := range s.Phases {
		for _, c := range ph.Clients {
			for _, op := range c {
				shape += "," + op.Op
			}
			shape += "|"
		}
	}
	if conflicts > 0 || len(s.Phases) > 1 || s.Mode == "global" {
		x.Key(sim.Mix(sim.HashStr(shape), uint64(st.F)<<20^uint64(st.T)))
	}
}
