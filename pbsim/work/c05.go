package work

import (
	"bytes"
	"encoding/json"
	"fmt"
	"os"
	"os/exec"
	"path/filepath"
	"sort"

	"google.golang.org/protobuf/proto"
	"google.golang.org/protobuf/reflect/protoreflect"
	"google.golang.org/protobuf/reflect/protoregistry"
	"google.golang.org/protobuf/types/dynamicpb"
	"google.golang.org/protobuf/zverifsim/gen"
	"google.golang.org/protobuf/zverifsim/scn"
	"google.golang.org/protobuf/zverifsim/sim"
)

// C05 — deterministic marshaling is a function of message content; and, over
// the same construction histories, the converse: variants whose deterministic
// encodings are identical must be proto.Equal in both argument orders (what a
// history leaves behind besides content, such as an empty list entry for an
// unpopulated repeated extension, must not make Equal say no).
//
// One seeded content is realised through many construction histories (field
// and map insertion orders, delete-and-reinsert detours, growth and shrink of
// maps, set-clear-set, Clone, Merge in halves, decode from minimal and
// non-minimal bytes, lazily held or expanded) and marshalled with
// Deterministic under several seeds of the Go map iteration order, and in
// re-executions of the same binary. All encodings of messages of the same
// concrete type must be byte-identical.
type c05 struct{}

func init() { sim.Register(c05{}) }

func (c05) ID() string { return "C05" }

var c05Types = []string{gen.TOpen2, gen.TOpen2, gen.TOpen3, gen.TEditions, gen.THybrid, gen.TOpaque, gen.TOpaque, gen.TExt2, gen.TLazyNode, gen.TMixedOpq, "google.protobuf.Struct", "goproto.proto.test.TestAllTypes.NestedMessage"}

func (c05) Gen(r *sim.Rng, tier string) *scn.Scn {
	s := &scn.Scn{P: map[string]int64{}}
	typ := c05Types[r.Intn(len(c05Types))]
	s.Objects = []scn.Object{{Type: typ, Seed: r.U64(), Depth: r.Range(1, 3), Size: r.Range(1, 5)}}
	s.P["vseed"] = int64(r.U64() >> 1)
	s.P["maps_big"] = int64(r.Intn(3)) // 0: small maps, 1,2: past the 8-entry bucket
	if r.Chance(1, 10) {
		s.P["restart"] = int64(r.Range(2, 3))
	}
	return s
}

func c05Content(o scn.Object, big bool) proto.Message {
	op := gen.DefaultOpts()
	op.MaxDepth = o.Depth
	op.MaxList = max(1, o.Size)
	op.FieldPerm = 160
	op.BigCollections = big
	op.ForceLazy = true
	m := gen.New(sim.NewRng(o.Seed), gen.Type(o.Type), op)
	if big {
		// make sure at least one map crosses Go's 8-entries-per-bucket threshold
		fds := m.ProtoReflect().Descriptor().Fields()
		r := sim.NewRng(o.Seed ^ 0xb16)
		for i := 0; i < fds.Len(); i++ {
			fd := fds.Get(i)
			if fd.IsMap() && fd.MapValue().Message() == nil && r.Chance(1, 3) {
				for k := 0; k < 14; k++ {
					tmp := m.ProtoReflect().New()
					o2 := gen.DefaultOpts()
					gen.SetField(r, tmp, fd, o2, 0)
					tmp.Get(fd).Map().Range(func(mk protoreflect.MapKey, mv protoreflect.Value) bool {
						m.ProtoReflect().Mutable(fd).Map().Set(mk, mv)
						return true
					})
				}
			}
		}
	}
	return m
}

type fv struct {
	fd protoreflect.FieldDescriptor
	v  protoreflect.Value
}

func shuffle[T any](r *sim.Rng, xs []T) {
	for i := len(xs) - 1; i > 0; i-- {
		j := r.Intn(i + 1)
		xs[i], xs[j] = xs[j], xs[i]
	}
}

// copyShuffled rebuilds src's content in dst through a different history:
// fields assigned in shuffled order, map entries inserted in shuffled order
// with insert-delete detours, scalars set-cleared-set.
func copyShuffled(r *sim.Rng, dst, src protoreflect.Message, detours bool) {
	var fields []fv
	src.Range(func(fd protoreflect.FieldDescriptor, v protoreflect.Value) bool {
		fields = append(fields, fv{fd, v})
		return true
	})
	sort.Slice(fields, func(i, j int) bool { return fields[i].fd.Number() < fields[j].fd.Number() })
	shuffle(r, fields)
	o := gen.DefaultOpts()
	for _, f := range fields {
		fd, v := f.fd, f.v
		switch {
		case fd.IsMap():
			dm := dst.Mutable(fd).Map()
			type kv struct {
				k protoreflect.MapKey
				v protoreflect.Value
			}
			var kvs []kv
			v.Map().Range(func(k protoreflect.MapKey, mv protoreflect.Value) bool { kvs = append(kvs, kv{k, mv}); return true })
			sort.Slice(kvs, func(i, j int) bool { return kvs[i].k.String() < kvs[j].k.String() })
			shuffle(r, kvs)
			var dummies []protoreflect.MapKey
			if detours {
				// grow the map with keys that are not part of the content, to be deleted again
				for i, n := 0, r.Range(0, 12); i < n; i++ {
					tmp := dst.New()
					gen.SetField(r, tmp, fd, o, 9)
					tmp.Get(fd).Map().Range(func(k protoreflect.MapKey, mv protoreflect.Value) bool {
						if !v.Map().Has(k) && fd.MapValue().Message() == nil {
							dm.Set(k, mv)
							dummies = append(dummies, k)
						}
						return true
					})
				}
			}
			for i, e := range kvs {
				if fd.MapValue().Message() != nil {
					nv := dm.NewValue()
					copyShuffled(r, nv.Message(), e.v.Message(), detours)
					dm.Set(e.k, nv)
				} else {
					dm.Set(e.k, e.v)
				}
				if detours && i%3 == 1 && fd.MapValue().Message() == nil {
					dm.Clear(e.k) // delete and re-insert
					dm.Set(e.k, e.v)
				}
			}
			for _, k := range dummies {
				dm.Clear(k)
			}
		case fd.IsList():
			dl := dst.Mutable(fd).List()
			sl := v.List()
			if detours && fd.Message() == nil && sl.Len() > 0 {
				dl.Append(sl.Get(0))
				dl.Truncate(0)
			}
			for i := 0; i < sl.Len(); i++ {
				if fd.Message() != nil {
					ne := dl.NewElement()
					copyShuffled(r, ne.Message(), sl.Get(i).Message(), detours)
					dl.Append(ne)
				} else {
					dl.Append(sl.Get(i))
				}
			}
		case fd.Message() != nil:
			if detours && r.Bool() {
				// a detour through another value of the field
				nv := dst.NewField(fd)
				gen.Populate(r, nv.Message(), gen.Opts{MaxDepth: 1, MaxList: 2, FieldPerm: 200})
				dst.Set(fd, nv)
				dst.Clear(fd)
			}
			copyShuffled(r, dst.Mutable(fd).Message(), v.Message(), detours)
		default:
			if detours && r.Bool() {
				gen.SetField(r, dst, fd, o, 0)
				dst.Clear(fd)
			}
			if fd.Kind() == protoreflect.BytesKind {
				dst.Set(fd, protoreflect.ValueOfBytes(append([]byte(nil), v.Bytes()...)))
			} else {
				dst.Set(fd, v)
			}
		}
	}
	dst.SetUnknown(append([]byte(nil), src.GetUnknown()...))
	if detours {
		// empty composites left behind by history for fields the content does not have: they are
		// unpopulated (Has false, nothing encoded), so the content is the same
		fds := dst.Descriptor().Fields()
		for i := 0; i < fds.Len(); i++ {
			fd := fds.Get(i)
			if src.Has(fd) || !(fd.IsList() || fd.IsMap()) || !r.Chance(1, 3) {
				continue
			}
			emptyDetour(r, dst, fd, o)
		}
		if dst.Descriptor().ExtensionRanges().Len() > 0 {
			var xs []protoreflect.FieldDescriptor
			protoregistry.GlobalTypes.RangeExtensionsByMessage(dst.Descriptor().FullName(), func(xt protoreflect.ExtensionType) bool {
				if fd := xt.TypeDescriptor(); fd.IsList() && !src.Has(fd) {
					xs = append(xs, fd)
				}
				return true
			})
			sort.Slice(xs, func(i, j int) bool { return xs[i].Number() < xs[j].Number() })
			for _, fd := range xs {
				if r.Chance(1, 3) {
					emptyDetour(r, dst, fd, o)
				}
			}
		}
	}
}

// emptyDetour leaves an empty list or map in dst for a field that stays unpopulated.
func emptyDetour(r *sim.Rng, dst protoreflect.Message, fd protoreflect.FieldDescriptor, o gen.Opts) {
	switch {
	case fd.IsMap():
		tmp := dst.New()
		gen.SetField(r, tmp, fd, o, 9)
		dm := dst.Mutable(fd).Map()
		tmp.Get(fd).Map().Range(func(k protoreflect.MapKey, v protoreflect.Value) bool {
			if fd.MapValue().Message() == nil {
				dm.Set(k, v)
			}
			return true
		})
		var ks []protoreflect.MapKey
		dm.Range(func(k protoreflect.MapKey, _ protoreflect.Value) bool { ks = append(ks, k); return true })
		for _, k := range ks {
			dm.Clear(k)
		}
	default:
		switch r.Intn(3) {
		case 0:
			dst.Set(fd, dst.NewField(fd)) // an empty list assigned
		case 1:
			dst.Mutable(fd) // obtained for writing, nothing appended
		default:
			l := dst.Mutable(fd).List()
			if fd.Message() != nil {
				l.Append(l.NewElement())
			} else {
				tmp := dst.New()
				gen.SetField(r, tmp, fd, o, 9)
				if tl := tmp.Get(fd).List(); tl.Len() > 0 {
					l.Append(tl.Get(0))
				}
			}
			l.Truncate(0)
		}
	}
}

func sameDetBytes(a, b proto.Message) bool {
	mo := proto.MarshalOptions{AllowPartial: true, Deterministic: true}
	x, err1 := mo.Marshal(a)
	y, err2 := mo.Marshal(b)
	return err1 == nil && err2 == nil && bytes.Equal(x, y)
}

type c05Variant struct {
	name  string
	class string
	m     proto.Message
}

func c05Variants(s *scn.Scn, x *sim.Exec) ([]c05Variant, []byte) {
	o := s.Objects[0]
	big := s.P["maps_big"] > 0
	m0 := c05Content(o, big)
	r := sim.NewRng(uint64(s.P["vseed"]))
	typ := o.Type
	gclass := "generated:" + typ
	vs := []c05Variant{{"reference construction", gclass, m0}}
	// the same construction under another map seed
	sim.SetMapSeed(uint64(s.P["vseed"]) | 1)
	vs = append(vs, c05Variant{"same construction, different map hash seeds", gclass, c05Content(o, big)})
	vs = append(vs, c05Variant{"Clone", gclass, proto.Clone(m0)})
	wire, err := proto.MarshalOptions{AllowPartial: true}.Marshal(m0)
	if err != nil {
		return nil, nil
	}
	if e, err := decodeEager(typ, wire); err == nil {
		vs = append(vs, c05Variant{"decoded eagerly from non-deterministic bytes", gclass, e})
	}
	if lazyCapable(typ) {
		if l, err := decodeLazy(typ, wire); err == nil {
			vs = append(vs, c05Variant{"decoded lazily, nothing expanded", gclass, l})
			x.Probe("lazy-unexpanded-variants", 1)
		}
		if l, err := decodeLazy(typ, wire); err == nil {
			deepDigest(l.ProtoReflect(), 6, nil, nil)
			vs = append(vs, c05Variant{"decoded lazily, then fully expanded", gclass, l})
		}
	}
	if t, ok := gen.ParseWire(m0.ProtoReflect().Descriptor(), wire); ok {
		var st gen.DenormStats
		gen.Denormalise(r.Fork(), t, 150, &st)
		if st.Total() > 0 {
			dw := t.Encode()
			// (a denormalisation must not change content; judged by the encoding, not by Equal,
			// which is itself under test below)
			if e, err := decodeEager(typ, dw); err == nil && sameDetBytes(e, m0) {
				vs = append(vs, c05Variant{"decoded eagerly from a non-minimal encoding", gclass, e})
				if lazyCapable(typ) {
					if l, err := decodeLazy(typ, dw); err == nil {
						vs = append(vs, c05Variant{"decoded lazily from a non-minimal encoding, nothing expanded", gclass, l})
						x.Fault("denormalised-wire")
					}
				}
			}
		}
	}
	for i := 0; i < 3; i++ {
		d := gen.NewMsg(typ)
		copyShuffled(r.Fork(), d.ProtoReflect(), m0.ProtoReflect(), i > 0)
		name := "rebuilt field by field in shuffled order"
		if i > 0 {
			name += " with set-clear-set, delete-reinsert and grow-shrink detours"
		}
		vs = append(vs, c05Variant{name, gclass, d})
	}
	{
		// Merge in two halves: first a message holding only part of the fields
		d := gen.NewMsg(typ)
		proto.Merge(d, m0)
		vs = append(vs, c05Variant{"Merge into an empty message", gclass, d})
	}
	// dynamicpb over the same descriptor: its own comparison class
	dclass := "dynamicpb:" + typ
	md := m0.ProtoReflect().Descriptor()
	d1 := dynamicpb.NewMessage(md)
	if err := (proto.UnmarshalOptions{AllowPartial: true}).Unmarshal(wire, d1); err == nil {
		vs = append(vs, c05Variant{"dynamicpb decoded from bytes", dclass, d1})
		d2 := dynamicpb.NewMessage(md)
		copyShuffled(r.Fork(), d2, d1, true)
		vs = append(vs, c05Variant{"dynamicpb rebuilt in shuffled order with detours", dclass, d2})
		d3 := proto.Clone(d1)
		vs = append(vs, c05Variant{"dynamicpb Clone", dclass, d3})
	}
	return vs, wire
}

func (c05) Run(s *scn.Scn, x *sim.Exec) {
	if len(s.Objects) == 0 {
		return
	}
	vs, wire0 := c05Variants(s, x)
	if vs == nil {
		return
	}
	if typ := s.Objects[0].Type; lazyCapable(typ) && len(wire0) > 0 {
		// The converse clause on messages nobody has looked into yet: two lazy decodes of the same
		// content from different valid encodings (map entries in another order, a non-minimal
		// encoding), compared with Equal before anything else touches them. Whether the two really
		// hold the same content is established afterwards, on separate eager decodes.
		m0 := vs[0].m
		sim.SetMapSeed(uint64(s.P["vseed"])*7 + 3)
		w2, err := proto.MarshalOptions{AllowPartial: true}.Marshal(m0)
		if t, ok := gen.ParseWire(m0.ProtoReflect().Descriptor(), wire0); ok && s.P["vseed"]%2 == 0 {
			var st gen.DenormStats
			gen.Denormalise(sim.NewRng(uint64(s.P["vseed"])^0xe9), t, 150, &st)
			w2 = t.Encode()
		}
		if err == nil {
			l1, e1 := decodeLazy(typ, wire0)
			l2, e2 := decodeLazy(typ, w2)
			g1, e3 := decodeEager(typ, wire0)
			g2, e4 := decodeEager(typ, w2)
			if e1 == nil && e2 == nil && e3 == nil && e4 == nil && sameDetBytes(g1, g2) {
				var a, b bool
				if p := sim.Protect(func() { a, b = proto.Equal(l1, l2), proto.Equal(l2, l1) }); p != "" {
					x.Fail("panic:Equal", "proto.Equal panicked on two lazily decoded messages: %s", p)
					return
				}
				x.Out.Evals++
				x.Probe("equal-on-untouched-lazy-twins", 1)
				if !a || !b {
					x.Fail("identical-bytes-not-equal", "generated:%s: two messages decoded lazily from two valid encodings of the same content (%d and %d bytes; their eager decodes have byte-identical deterministic encodings) and not touched since: proto.Equal(a, b)=%v, proto.Equal(b, a)=%v", typ, len(wire0), len(w2), a, b)
					return
				}
			}
		}
	}
	mo := proto.MarshalOptions{AllowPartial: true, Deterministic: true}
	first := map[string][]byte{}
	firstName := map[string]string{}
	firstMsg := map[string]proto.Message{}
	mapSeeds := []uint64{uint64(s.P["vseed"])*3 + 1, 0x9e3779b97f4a7c15, uint64(s.P["vseed"])>>7 | 1}
	if os.Getenv("PBSIM_C05_CHILD") == "1" {
		// a re-executed process uses map seeds of its own
		h := sim.HashStr(os.Getenv("PBSIM_MAPSEED"))
		mapSeeds = []uint64{h | 1, h>>9 | 1}
	}
	for _, v := range vs {
		for k, ms := range mapSeeds {
			sim.SetMapSeed(ms | 1)
			b, err := mo.Marshal(v.m)
			x.Out.Evals++
			if err != nil {
				x.Fail("det-marshal-error", "deterministic Marshal failed for variant %q: %v", v.name, err)
				return
			}
			x.Fault("map-order")
			if want, ok := first[v.class]; !ok {
				first[v.class] = b
				firstName[v.class] = v.name
				firstMsg[v.class] = v.m
			} else if !bytes.Equal(want, b) {
				// equal content? (a harness construction error would show here)
				cls := "different-bytes-same-content"
				ref := vs[0].m
				if !proto.Equal(v.m, ref) && v.class == vs[0].class {
					cls = "harness-variant-content-differs"
				}
				x.Fail(cls, "Deterministic Marshal of %s: variant %q (marshal #%d, map seed %d) differs from variant %q: %d vs %d bytes, first difference at offset %d", v.class, v.name, k, ms, firstName[v.class], len(b), len(want), firstDiff(b, want))
				return
			}
		}
	}
	// The converse clause, over the same histories: all variants of a class have just been seen to
	// have identical deterministic encodings, so any two of them must be Equal, in both argument orders.
	for _, v := range vs {
		ref := firstMsg[v.class]
		if ref == nil || ref == v.m {
			continue
		}
		var e1, e2 bool
		if p := sim.Protect(func() { e1, e2 = proto.Equal(v.m, ref), proto.Equal(ref, v.m) }); p != "" {
			x.Fail("panic:Equal", "proto.Equal panicked on variant %q: %s", v.name, p)
			return
		}
		x.Out.Evals++
		if !e1 || !e2 {
			x.Fail("identical-bytes-not-equal", "%s: variant %q and variant %q have byte-identical deterministic encodings (%d bytes) but proto.Equal(variant, first)=%v, proto.Equal(first, variant)=%v", v.class, v.name, firstName[v.class], len(first[v.class]), e1, e2)
			return
		}
	}
	x.Probe("variants-compared", int64(len(vs)))
	if n := s.P["restart"]; n > 0 && os.Getenv("PBSIM_C05_CHILD") != "1" && os.Getenv("PBSIM_WORKDIR") != "" {
		// process restart: the same binary, started afresh with other map seeds, must produce the same bytes
		for i := int64(0); i < n; i++ {
			h, err := c05Child(s, uint64(s.P["vseed"])+uint64(i)*7919+11)
			if err != nil {
				x.Fail("child-failed", "re-executed process failed: %v", err)
				return
			}
			x.Fault("process-restart")
			var classes []string
			for cls := range first {
				classes = append(classes, cls)
			}
			sort.Strings(classes)
			for _, cls := range classes {
				want := first[cls]
				if got, ok := h[cls]; ok && got != fmt.Sprintf("%x", sim.Hash64(want))+fmt.Sprint(len(want)) {
					x.Fail("different-bytes-across-processes", "Deterministic Marshal of %s differs between this process and a re-execution of the same binary (child map seed %d)", cls, uint64(s.P["vseed"])+uint64(i)*7919+11)
					return
				}
			}
		}
	}
	if os.Getenv("PBSIM_C05_CHILD") == "1" {
		out := map[string]string{}
		for cls, b := range first {
			out[cls] = fmt.Sprintf("%x", sim.Hash64(b)) + fmt.Sprint(len(b))
		}
		js, _ := json.Marshal(out)
		os.WriteFile(os.Getenv("PBSIM_C05_OUT"), js, 0o644)
	}
	shape := s.Objects[0].Type + fmt.Sprint(len(vs), s.Objects[0].Depth, s.Objects[0].Size, s.P["maps_big"])
	if len(first[vs[0].class]) > 0 {
		x.Key(sim.Mix(sim.HashStr(shape), sim.Hash64(first[vs[0].class])))
	}
}

func firstDiff(a, b []byte) int {
	for i := 0; i < len(a) && i < len(b); i++ {
		if a[i] != b[i] {
			return i
		}
	}
	if len(a) < len(b) {
		return len(a)
	}
	return len(b)
}

func c05Child(s *scn.Scn, mapseed uint64) (map[string]string, error) {
	dir := os.Getenv("PBSIM_WORKDIR")
	f := filepath.Join(dir, fmt.Sprintf("c05-%d.json", os.Getpid()))
	of := filepath.Join(dir, fmt.Sprintf("c05-%d.out.json", os.Getpid()))
	c := s.Clone()
	c.P["restart"] = 0
	if err := c.Save(f); err != nil {
		return nil, err
	}
	os.Remove(of)
	cmd := exec.Command(os.Args[0], "-replay", f)
	cmd.Env = append(os.Environ(), "PBSIM_C05_CHILD=1", "PBSIM_C05_OUT="+of, fmt.Sprintf("PBSIM_MAPSEED=%d", mapseed|1))
	out, err := cmd.CombinedOutput()
	b, rerr := os.ReadFile(of)
	if rerr != nil {
		return nil, fmt.Errorf("%v: %s", err, tail(string(out), 1500))
	}
	h := map[string]string{}
	if err := json.Unmarshal(b, &h); err != nil {
		return nil, err
	}
	return h, nil
}
