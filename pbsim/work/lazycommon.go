package work

import (
	"fmt"
	"math"
	"reflect"
	"sort"
	"strings"

	"google.golang.org/protobuf/internal/strs"
	"google.golang.org/protobuf/proto"
	"google.golang.org/protobuf/reflect/protoreflect"
	"google.golang.org/protobuf/reflect/protoregistry"
	"google.golang.org/protobuf/zverifsim/gen"
	"google.golang.org/protobuf/zverifsim/sim"
)

// Types that hold lazily decoded submessages in the default build.
var lazyRoots = []string{gen.TLazyNode, gen.TLazyNode, gen.TOpaque, gen.TMixedOpq, gen.TReqLazy, "pbsim.fx.AfterOneof"}

// buildLazyWire generates content for a lazy-capable root type and returns its
// wire encoding; with intensity > 0 the encoding is rewritten into a legal
// non-minimal form.
func buildLazyWire(r *sim.Rng, typ string, depth, size int, intensity int) ([]byte, gen.DenormStats) {
	m := gen.NewMsg(typ)
	o := gen.DefaultOpts()
	o.MaxDepth = depth
	o.MaxList = max(1, size)
	o.ForceLazy = true
	switch typ {
	case gen.TOpaque:
		o.FieldPerm = 60
		o.Extensions = false
	case gen.TLazyNode, gen.TMixedOpq, gen.TReqLazy, gen.THybNode, gen.TMixedHyb:
		o.FieldPerm = 500
	case gen.THybrid:
		o.FieldPerm = 60
		o.Extensions = false
	case gen.TExt2:
		o.FieldPerm = 0
		o.MaxDepth = 2
	}
	gen.Populate(r, m.ProtoReflect(), o)
	w, err := proto.MarshalOptions{AllowPartial: true}.Marshal(m)
	if err != nil {
		panic(fmt.Sprintf("buildLazyWire: %v", err))
	}
	var st gen.DenormStats
	if intensity > 0 {
		if t, ok := gen.ParseWire(m.ProtoReflect().Descriptor(), w); ok {
			if r.Chance(1, 4) {
				// many separate runs of several lazy fields (concatenated deltas): a long lazy index, out of order
				if gen.ManyRuns(r, t, r.Range(5, 9)) > 0 {
					st.NonContiguous++
					st.LazyTouched++
				}
			}
			gen.Denormalise(r, t, intensity, &st)
			w = t.Encode()
		}
	}
	return w, st
}

func decodeLazy(typ string, wire []byte) (proto.Message, error) {
	m := gen.NewMsg(typ)
	err := proto.UnmarshalOptions{AllowPartial: true}.Unmarshal(wire, m)
	return m, err
}

func decodeEager(typ string, wire []byte) (proto.Message, error) {
	m := gen.NewMsg(typ)
	err := proto.UnmarshalOptions{AllowPartial: true, NoLazyDecoding: true}.Unmarshal(append([]byte(nil), wire...), m)
	return m, err
}

// msgPaths lists the field-number paths of populated singular message fields.
func msgPaths(m protoreflect.Message, maxDepth int) [][]int32 {
	var out [][]int32
	var walk func(m protoreflect.Message, prefix []int32, d int)
	walk = func(m protoreflect.Message, prefix []int32, d int) {
		if d >= maxDepth {
			return
		}
		fds := m.Descriptor().Fields()
		for i := 0; i < fds.Len(); i++ {
			fd := fds.Get(i)
			if fd.Message() == nil || fd.IsList() || fd.IsMap() || !m.Has(fd) {
				continue
			}
			p := append(append([]int32(nil), prefix...), int32(fd.Number()))
			out = append(out, p)
			walk(m.Get(fd).Message(), p, d+1)
		}
		if m.Descriptor().ExtensionRanges().Len() > 0 {
			// populated singular message-typed extension fields, by number
			var xs []protoreflect.FieldDescriptor
			m.Range(func(fd protoreflect.FieldDescriptor, _ protoreflect.Value) bool {
				if fd.IsExtension() && fd.Message() != nil && !fd.IsList() && !fd.IsMap() {
					xs = append(xs, fd)
				}
				return true
			})
			sort.Slice(xs, func(i, j int) bool { return xs[i].Number() < xs[j].Number() })
			for _, fd := range xs {
				p := append(append([]int32(nil), prefix...), int32(fd.Number()))
				out = append(out, p)
				walk(m.Get(fd).Message(), p, d+1)
			}
		}
	}
	walk(m, nil, 0)
	return out
}

func pathKey(p []int32) string {
	var b strings.Builder
	for i, n := range p {
		if i > 0 {
			b.WriteByte('/')
		}
		fmt.Fprintf(&b, "%d", n)
	}
	return b.String()
}

func isNilMsg(m proto.Message) bool {
	if m == nil {
		return true
	}
	v := reflect.ValueOf(m)
	return v.Kind() == reflect.Ptr && v.IsNil()
}

func msgPtr(m proto.Message) uintptr {
	v := reflect.ValueOf(m)
	if v.Kind() == reflect.Ptr {
		return v.Pointer()
	}
	return 0
}

// callGetter invokes the generated Get<Field>() method.
func callGetter(m proto.Message, fd protoreflect.FieldDescriptor) (proto.Message, bool) {
	name := "Get" + strs.GoCamelCase(string(fd.Name()))
	if fd.Kind() == protoreflect.GroupKind {
		name = "Get" + strs.GoCamelCase(string(fd.Message().Name()))
	}
	meth := reflect.ValueOf(m).MethodByName(name)
	if !meth.IsValid() {
		return nil, false
	}
	out := meth.Call(nil)
	if len(out) != 1 {
		return nil, false
	}
	r, ok := out[0].Interface().(proto.Message)
	return r, ok
}

// callHas invokes the generated Has<Field>() method, if there is one.
func callHas(m proto.Message, fd protoreflect.FieldDescriptor) (has, ok bool) {
	name := "Has" + strs.GoCamelCase(string(fd.Name()))
	if fd.Kind() == protoreflect.GroupKind {
		name = "Has" + strs.GoCamelCase(string(fd.Message().Name()))
	}
	meth := reflect.ValueOf(m).MethodByName(name)
	if !meth.IsValid() {
		return false, false
	}
	out := meth.Call(nil)
	if len(out) != 1 || out[0].Kind() != reflect.Bool {
		return false, false
	}
	return out[0].Bool(), true
}

// ptrRec records which instance a client saw at a path.
type ptrRec struct {
	Path  string
	Ptr   uintptr
	Route string
}

type hasher struct{ h uint64 }

func newHasher() *hasher { return &hasher{14695981039346656037} }
func (h *hasher) b(p []byte) {
	for _, c := range p {
		h.h ^= uint64(c)
		h.h *= 1099511628211
	}
	h.u(uint64(len(p)))
}
func (h *hasher) s(s string) { h.b([]byte(s)) }
func (h *hasher) u(v uint64) {
	for i := 0; i < 8; i++ {
		h.h ^= v & 0xff
		h.h *= 1099511628211
		v >>= 8
	}
}

func (h *hasher) scalar(fd protoreflect.FieldDescriptor, v protoreflect.Value) {
	switch fd.Kind() {
	case protoreflect.BoolKind:
		if v.Bool() {
			h.u(1)
		} else {
			h.u(0)
		}
	case protoreflect.EnumKind:
		h.u(uint64(v.Enum()))
	case protoreflect.Int32Kind, protoreflect.Sint32Kind, protoreflect.Sfixed32Kind, protoreflect.Int64Kind, protoreflect.Sint64Kind, protoreflect.Sfixed64Kind:
		h.u(uint64(v.Int()))
	case protoreflect.Uint32Kind, protoreflect.Fixed32Kind, protoreflect.Uint64Kind, protoreflect.Fixed64Kind:
		h.u(v.Uint())
	case protoreflect.FloatKind, protoreflect.DoubleKind:
		f := v.Float()
		if f != f {
			h.u(0x7ff8dead)
		} else {
			h.u(math.Float64bits(f))
		}
	case protoreflect.StringKind:
		h.s(v.String())
	case protoreflect.BytesKind:
		h.b(v.Bytes())
	}
}

// scalarDigest hashes the non-message singular fields of m (presence and value).
func scalarDigest(m protoreflect.Message) uint64 {
	h := newHasher()
	fds := m.Descriptor().Fields()
	for i := 0; i < fds.Len(); i++ {
		fd := fds.Get(i)
		if fd.Message() != nil || fd.IsList() || fd.IsMap() {
			continue
		}
		if m.Has(fd) {
			h.u(uint64(fd.Number()))
		}
		h.scalar(fd, m.Get(fd))
	}
	return h.h
}

// deepDigest hashes everything reachable through Range (order-independent),
// and records the instance of every singular message field visited.
func deepDigest(m protoreflect.Message, depth int, path []int32, ptrs *[]ptrRec) uint64 {
	type ent struct {
		num protoreflect.FieldNumber
		h   uint64
	}
	var ents []ent
	m.Range(func(fd protoreflect.FieldDescriptor, v protoreflect.Value) bool {
		h := newHasher()
		h.u(uint64(fd.Number()))
		switch {
		case fd.IsMap():
			var hs []uint64
			v.Map().Range(func(k protoreflect.MapKey, mv protoreflect.Value) bool {
				eh := newHasher()
				eh.scalar(fd.MapKey(), k.Value())
				if fd.MapValue().Message() != nil {
					if depth > 0 {
						eh.u(deepDigest(mv.Message(), depth-1, nil, nil))
					}
				} else {
					eh.scalar(fd.MapValue(), mv)
				}
				hs = append(hs, eh.h)
				return true
			})
			sort.Slice(hs, func(i, j int) bool { return hs[i] < hs[j] })
			for _, x := range hs {
				h.u(x)
			}
		case fd.IsList():
			l := v.List()
			h.u(uint64(l.Len()))
			for i := 0; i < l.Len(); i++ {
				if fd.Message() != nil {
					if depth > 0 {
						h.u(deepDigest(l.Get(i).Message(), depth-1, nil, nil))
					}
				} else {
					h.scalar(fd, l.Get(i))
				}
			}
		case fd.Message() != nil:
			sub := v.Message()
			var p []int32
			if ptrs != nil && !fd.IsExtension() {
				p = append(append([]int32(nil), path...), int32(fd.Number()))
				*ptrs = append(*ptrs, ptrRec{pathKey(p), msgPtr(sub.Interface()), "range"})
			}
			if depth > 0 {
				var pp *[]ptrRec
				if p != nil {
					pp = ptrs
				}
				h.u(deepDigest(sub, depth-1, p, pp))
			}
		default:
			h.scalar(fd, v)
		}
		ents = append(ents, ent{fd.Number(), h.h})
		return true
	})
	sort.Slice(ents, func(i, j int) bool { return ents[i].num < ents[j].num })
	h := newHasher()
	for _, e := range ents {
		h.u(e.h)
	}
	h.b(m.GetUnknown())
	return h.h
}

// fieldByNumber resolves a path element.
func fieldByNumber(m protoreflect.Message, n int32) protoreflect.FieldDescriptor {
	if fd := m.Descriptor().Fields().ByNumber(protoreflect.FieldNumber(n)); fd != nil {
		return fd
	}
	// a path may lead through a message-typed extension field
	if m.Descriptor().ExtensionRanges().Has(protoreflect.FieldNumber(n)) {
		if xt, err := protoregistry.GlobalTypes.FindExtensionByNumber(m.Descriptor().FullName(), protoreflect.FieldNumber(n)); err == nil {
			return xt.TypeDescriptor()
		}
	}
	return nil
}
