package work

import (
	"bytes"
	"encoding/json"
	"fmt"
	"os"
	"os/exec"
	"path/filepath"
	"reflect"
	"sort"
	"strings"

	"google.golang.org/protobuf/encoding/protojson"
	"google.golang.org/protobuf/encoding/protowire"
	"google.golang.org/protobuf/internal/filedesc"
	"google.golang.org/protobuf/internal/impl"
	"google.golang.org/protobuf/proto"
	"google.golang.org/protobuf/reflect/protodesc"
	"google.golang.org/protobuf/reflect/protoreflect"
	"google.golang.org/protobuf/reflect/protoregistry"
	"google.golang.org/protobuf/runtime/protoimpl"
	"google.golang.org/protobuf/types/descriptorpb"
	"google.golang.org/protobuf/types/dynamicpb"
	"google.golang.org/protobuf/zverifsim/gen"
	"google.golang.org/protobuf/zverifsim/scn"
	"google.golang.org/protobuf/zverifsim/sim"

	l2a "google.golang.org/protobuf/internal/testprotos/legacy/proto2_20160225_2fc053c5"
	l2b "google.golang.org/protobuf/internal/testprotos/legacy/proto2_20160519_a4ab9ec5"
	l2c "google.golang.org/protobuf/internal/testprotos/legacy/proto2_20180125_92554152"
	l2d "google.golang.org/protobuf/internal/testprotos/legacy/proto2_20180430_b4deda09"
	l2e "google.golang.org/protobuf/internal/testprotos/legacy/proto2_20180814_aa810b61"
	l2f "google.golang.org/protobuf/internal/testprotos/legacy/proto2_20190205_c823c79e"
	l3a "google.golang.org/protobuf/internal/testprotos/legacy/proto3_20160225_2fc053c5"
	l3b "google.golang.org/protobuf/internal/testprotos/legacy/proto3_20160519_a4ab9ec5"
	l3c "google.golang.org/protobuf/internal/testprotos/legacy/proto3_20180125_92554152"
	l3d "google.golang.org/protobuf/internal/testprotos/legacy/proto3_20180430_b4deda09"
	l3e "google.golang.org/protobuf/internal/testprotos/legacy/proto3_20180814_aa810b61"
	l3f "google.golang.org/protobuf/internal/testprotos/legacy/proto3_20190205_c823c79e"
)

// C19 — concurrent first use of types, descriptors, wrappers, registries.
//
// Two modes. "inproc": every scenario builds fresh, never-used copies of the
// lazily initialised objects (file descriptors, MessageInfo, ExtensionInfo,
// dynamicpb.Types, swapped-in global registries) and lets 2-4 clients make
// first use of them under the scheduler. "process": the worker re-executes
// itself for one scenario, so that the process-global objects registered by
// generated code are themselves untouched when the clients start.
type c19 struct{}

func init() { sim.Register(c19{}) }

func (c19) ID() string { return "C19" }

// ---- raw descriptors of all linked files (in-process mode only) ----

type rawFile struct {
	path string
	raw  []byte
	deps []string
}

var c19Raw map[string]*rawFile
var c19Paths []string

func c19LoadRaw() {
	if c19Raw != nil {
		return
	}
	c19Raw = map[string]*rawFile{}
	protoregistry.GlobalFiles.RangeFiles(func(fd protoreflect.FileDescriptor) bool {
		p := protodesc.ToFileDescriptorProto(fd)
		b, err := proto.MarshalOptions{Deterministic: true}.Marshal(p)
		if err != nil {
			return true
		}
		rf := &rawFile{path: fd.Path(), raw: b}
		rf.deps = append(rf.deps, p.GetDependency()...)
		c19Raw[fd.Path()] = rf
		return true
	})
	for p := range c19Raw {
		c19Paths = append(c19Paths, p)
	}
	sort.Strings(c19Paths)
}

func c19Closure(roots []string) []string {
	seen := map[string]bool{}
	var order []string
	var visit func(p string)
	visit = func(p string) {
		if seen[p] || c19Raw[p] == nil {
			return
		}
		seen[p] = true
		for _, d := range c19Raw[p].deps {
			visit(d)
		}
		order = append(order, p)
	}
	for _, r := range roots {
		visit(r)
	}
	return order
}

// fresh files: built with the compact builder into a local registry; L2 is
// uninitialised and dependencies resolve lazily through that registry.
func c19BuildFiles(paths []string, reverse bool) (*protoregistry.Files, []protoreflect.FileDescriptor) {
	reg := new(protoregistry.Files)
	ps := append([]string(nil), paths...)
	if reverse {
		for i, j := 0, len(ps)-1; i < j; i, j = i+1, j-1 {
			ps[i], ps[j] = ps[j], ps[i]
		}
	}
	byPath := map[string]protoreflect.FileDescriptor{}
	for _, p := range ps {
		out := filedesc.Builder{RawDescriptor: c19Raw[p].raw, FileRegistry: reg}.Build()
		byPath[p] = out.File
	}
	fds := make([]protoreflect.FileDescriptor, len(paths))
	for i, p := range paths {
		fds[i] = byPath[p]
	}
	return reg, fds
}

var c19RootFiles = []string{
	"internal/testprotos/test/test.proto",
	"internal/testprotos/test3/test.proto",
	"internal/testprotos/testeditions/test.proto",
	"internal/testprotos/testeditions/testeditions_opaque/test.opaque.proto",
	"internal/testprotos/lazy/lazy_opaque/lazy_tree.opaque.proto",
	"internal/testprotos/mixed/mixed.proto",
	"internal/testprotos/required/required.proto",
	"internal/testprotos/messageset/msetextpb/msetextpb.proto",
	"internal/testprotos/news/news.proto",
	"internal/testprotos/test/ext.proto",
	"internal/testprotos/testeditions/test_extension.proto",
	"google/protobuf/struct.proto",
	"google/protobuf/descriptor.proto",
}

var c19MITypes = []string{gen.TOpen2, gen.TOpen3, gen.TEditions, gen.THybrid, gen.TOpaque, gen.TLazyNode, gen.TMixedOpq, gen.TMixedOpen, gen.TExt2, gen.TManyOpaque,
	"goproto.proto.test.TestRequired", "google.golang.org.Article", "google.protobuf.Struct", "goproto.proto.test.TestAllTypes.NestedMessage",
	"goproto.proto.test.TestRequired", "goproto.proto.test.TestRequiredForeign", "goproto.proto.test.TestRequiredForeign", "goproto.proto.test.TestRequiredGroupFields", gen.TReqLazy}

var c19InprocOps = []string{"file-proto", "msg-lookups", "msg-lookups", "enum-lookups", "field-targets", "field-targets", "options", "srcloc", "find-name", "dyn-roundtrip", "dyntypes-ext",
	"mi-roundtrip", "mi-roundtrip", "mi-reflect", "mi-json", "mi-size", "mi-new", "mi-checkinit", "xi-use", "greg-find", "greg-register", "greg-range", "newfile", "ab-desc", "ab-roundtrip", "dynext-use", "dynext-use"}

var c19ProcOps = []string{"pm-roundtrip", "pm-roundtrip", "pm-roundtrip", "pm-desc", "pm-desc", "pm-file-proto", "pm-json", "pm-legacy", "pm-legacy", "pm-ext", "pm-find", "pm-newfile", "pm-dyn", "pm-aberrant", "pm-aberrant"}

func (c19) Gen(r *sim.Rng, tier string) *scn.Scn {
	s := &scn.Scn{P: map[string]int64{}}
	nc := r.Range(2, 4)
	ph := scn.Phase{Sched: randSched(r)}
	if r.Chance(3, 10) || os.Getenv("PBSIM_C19_PROC_ONLY") != "" {
		// process mode
		s.Mode = "process"
		s.NoDryRun = true
		// objects: (type, wire) pairs prepared here, in the parent
		nobj := r.Range(2, 5)
		for i := 0; i < nobj; i++ {
			typ := c19MITypes[r.Intn(len(c19MITypes))]
			o := gen.DefaultOpts()
			o.MaxDepth = 2
			o.FieldPerm = 120
			m := gen.New(r.Fork(), gen.Type(typ), o)
			w, _ := proto.MarshalOptions{AllowPartial: true, Deterministic: true}.Marshal(m)
			s.Objects = append(s.Objects, scn.Object{Type: typ, Wire: w})
		}
		for c := 0; c < nc; c++ {
			var ops []scn.Op
			for i, n := 0, r.Range(1, 5); i < n; i++ {
				po := scn.Op{Op: c19ProcOps[r.Intn(len(c19ProcOps))], Obj: r.Intn(nobj), N: int64(r.Intn(1 << 20))}
				if only := os.Getenv("PBSIM_C19_PROC_ONLY"); only != "" { // experiments only
					po.Op = only
				}
				ops = append(ops, po)
			}
			ph.Clients = append(ph.Clients, ops)
		}
		// clients tend to hit the same objects first: that is where init races live
		switch r.Intn(6) {
		case 0, 1, 2:
			for c := 1; c < nc; c++ {
				ph.Clients[c][0] = ph.Clients[0][0]
			}
		case 3:
			// different message types of one legacy file, first-used at the same time: they share
			// the file's descriptor, which is loaded on first use of any of them
			// (the families of c19lg.go: the linked legacy packages first-use themselves in their init functions)
			nall := int64(len(c19FreshLegacy) + len(c19Legacy))
			pkg := int64(r.Intn(len(c19FreshLegacy)))
			for c := 0; c < nc; c++ {
				ph.Clients[c][0] = scn.Op{Op: "pm-legacy", N: pkg + nall*int64((c+r.Intn(2))%3) + 3*nall*int64(r.Intn(1000))}
			}
		}
		s.Phases = []scn.Phase{ph}
		return s
	}
	s.Mode = "inproc"
	nroot := r.Range(1, 2)
	for i := 0; i < nroot; i++ {
		s.Objects = append(s.Objects, scn.Object{Type: "file", Note: c19RootFiles[r.Intn(len(c19RootFiles))]})
	}
	nmi := r.Range(1, 3)
	for i := 0; i < nmi; i++ {
		s.Objects = append(s.Objects, scn.Object{Type: "mi", Note: c19MITypes[r.Intn(len(c19MITypes))], Seed: r.U64()})
	}
	if r.Chance(1, 3) {
		// a second, separate MessageInfo for the same type: both make first use of the same descriptor
		last := s.Objects[len(s.Objects)-1]
		s.Objects = append(s.Objects, scn.Object{Type: "mi", Note: last.Note, Seed: r.U64()})
	}
	if r.Chance(1, 3) {
		// two or three separate MessageInfos of a type whose required-ness is only found by walking
		// its submessages, plus the child: all make first use of the same descriptors
		t := []string{"goproto.proto.test.TestRequiredForeign", gen.TReqLazy, "goproto.proto.test.TestRequiredGroupFields"}[r.Intn(3)]
		for i, n := 0, r.Range(2, 3); i < n; i++ {
			s.Objects = append(s.Objects, scn.Object{Type: "mi", Note: t, Seed: r.U64()})
		}
		s.P["checkinit_bias"] = 1
	}
	if r.Chance(2, 5) {
		// a chain of never-seen legacy struct types without descriptors (see c19ab.go)
		s.Objects = append(s.Objects, scn.Object{Type: "ab", Seed: r.U64()})
		s.P["ab_bias"] = 1
	}
	if s.P["ab_bias"] == 0 && s.P["checkinit_bias"] == 0 && r.Chance(1, 5) {
		// registration and lookup on the global registries only, lookups aimed at what another client is about to register
		s.P["greg_bias"] = 1
	}
	s.P["reverse"] = int64(r.Intn(2))
	for c := 0; c < nc; c++ {
		var ops []scn.Op
		for i, n := 0, r.Range(1, 5); i < n; i++ {
			op := scn.Op{Op: c19InprocOps[r.Intn(len(c19InprocOps))], Obj: r.Intn(len(s.Objects)), N: int64(r.Intn(1 << 20)), M: int64(r.Intn(1 << 20))}
			if only := os.Getenv("PBSIM_C19_ONLY"); only != "" { // experiments only
				op.Op = only
			}
			if s.P["checkinit_bias"] == 1 && r.Chance(1, 2) {
				// first use of one of the MessageInfos added last, through the initialization check
				op.Op = []string{"mi-checkinit", "mi-checkinit", "mi-roundtrip"}[r.Intn(3)]
				op.Obj = len(s.Objects) - 1 - r.Intn(2)
			}
			if s.P["ab_bias"] == 1 && r.Chance(1, 2) {
				op.Op = []string{"ab-desc", "ab-roundtrip"}[r.Intn(2)]
			}
			if s.P["greg_bias"] == 1 {
				op.Op = []string{"greg-register", "greg-register", "greg-find", "greg-find", "greg-find", "greg-range"}[r.Intn(6)]
			}
			ops = append(ops, op)
		}
		ph.Clients = append(ph.Clients, ops)
	}
	if r.Chance(1, 2) {
		for c := 1; c < nc; c++ {
			ph.Clients[c][0] = ph.Clients[0][0]
		}
	}
	s.Phases = []scn.Phase{ph}
	return s
}

// pmsg adapts a protoreflect.Message backed by a fresh MessageInfo to proto.Message.
type pmsg struct{ m protoreflect.Message }

func (p pmsg) ProtoReflect() protoreflect.Message { return p.m }

type c19Env struct {
	reg      *protoregistry.Files
	files    []protoreflect.FileDescriptor // closure, dependency order
	roots    []protoreflect.FileDescriptor // per "file" object index (nil for others)
	mis      []*impl.MessageInfo           // per object index
	miTypes  []string
	miWire   [][]byte
	xis      []*impl.ExtensionInfo
	dynT     *dynamicpb.Types
	gfiles   *protoregistry.Files
	gtypes   *protoregistry.Types
	regSets  [][]protoreflect.FileDescriptor // per client: files it may register globally (disjoint)
	abShapes []abShape
	abTypes  []reflect.Type
}

func descPtr(d any) uintptr {
	v := reflect.ValueOf(d)
	if v.Kind() == reflect.Ptr {
		return v.Pointer()
	}
	return 0
}

func c19AllMessages(fd protoreflect.FileDescriptor) []protoreflect.MessageDescriptor {
	var out []protoreflect.MessageDescriptor
	var walk func(ms protoreflect.MessageDescriptors)
	walk = func(ms protoreflect.MessageDescriptors) {
		for i := 0; i < ms.Len(); i++ {
			out = append(out, ms.Get(i))
			walk(ms.Get(i).Messages())
		}
	}
	walk(fd.Messages())
	return out
}

func c19AllEnums(fd protoreflect.FileDescriptor) []protoreflect.EnumDescriptor {
	var out []protoreflect.EnumDescriptor
	for i := 0; i < fd.Enums().Len(); i++ {
		out = append(out, fd.Enums().Get(i))
	}
	for _, m := range c19AllMessages(fd) {
		for i := 0; i < m.Enums().Len(); i++ {
			out = append(out, m.Enums().Get(i))
		}
	}
	return out
}

// c19DescOp runs a descriptor-observing operation on fd. ptrs records
// instances where the API promises a single one.
func c19DescOp(op *scn.Op, fd protoreflect.FileDescriptor, reg *protoregistry.Files, ptrs *[]ptrRec) sim.OpResult {
	h := newHasher()
	switch strings.TrimPrefix(op.Op, "pm-") {
	case "file-proto":
		p := protodesc.ToFileDescriptorProto(fd)
		b, err := proto.MarshalOptions{Deterministic: true}.Marshal(p)
		if err != nil {
			return sim.OpResult{Bad: "I2:file-proto: " + err.Error()}
		}
		h.b(b)
	case "msg-lookups", "desc":
		ms := c19AllMessages(fd)
		if len(ms) == 0 {
			break
		}
		md := ms[int(op.N)%len(ms)]
		h.s(string(md.FullName()))
		fds := md.Fields()
		for i := 0; i < fds.Len(); i++ {
			f := fds.Get(i)
			a := fds.ByNumber(f.Number())
			b := fds.ByName(f.Name())
			c := fds.ByJSONName(f.JSONName())
			d := fds.ByTextName(f.TextName())
			if a == nil || a != b || a != c || a != d || a != f {
				return sim.OpResult{Bad: fmt.Sprintf("I1:lookup-tables-disagree: %s: ByNumber/ByName/ByJSONName/ByTextName/Get disagree for field %s", md.FullName(), f.Name())}
			}
			if ptrs != nil {
				*ptrs = append(*ptrs, ptrRec{string(f.FullName()), descPtr(a), "field"})
			}
			h.s(string(f.Name()))
			h.s(f.JSONName())
			h.s(f.TextName())
			h.u(uint64(f.Number()))
			h.u(uint64(f.Kind()))
			h.u(uint64(f.Cardinality()))
		}
		for i := 0; i < md.Oneofs().Len(); i++ {
			o := md.Oneofs().Get(i)
			if md.Oneofs().ByName(o.Name()) != o {
				return sim.OpResult{Bad: fmt.Sprintf("I1:lookup-tables-disagree: %s: Oneofs().ByName(%s)", md.FullName(), o.Name())}
			}
			h.s(string(o.Name()))
			h.u(uint64(o.Fields().Len()))
		}
		for n := protoreflect.FieldNumber(1); n < 40; n++ {
			if md.ReservedRanges().Has(n) {
				h.u(uint64(n))
			}
			if md.ExtensionRanges().Has(n + 990) {
				h.u(uint64(n) << 8)
			}
		}
		h.u(uint64(md.RequiredNumbers().Len()))
		h.u(uint64(md.ReservedNames().Len()))
		for i := 0; i < md.Messages().Len(); i++ {
			if md.Messages().ByName(md.Messages().Get(i).Name()) != md.Messages().Get(i) {
				return sim.OpResult{Bad: "I1:lookup-tables-disagree: nested Messages().ByName"}
			}
		}
	case "enum-lookups":
		es := c19AllEnums(fd)
		if len(es) == 0 {
			break
		}
		ed := es[int(op.N)%len(es)]
		h.s(string(ed.FullName()))
		vs := ed.Values()
		for i := 0; i < vs.Len(); i++ {
			v := vs.Get(i)
			if vs.ByName(v.Name()) != v {
				return sim.OpResult{Bad: fmt.Sprintf("I1:lookup-tables-disagree: %s: Values().ByName(%s)", ed.FullName(), v.Name())}
			}
			if bn := vs.ByNumber(v.Number()); bn == nil || bn.Number() != v.Number() {
				return sim.OpResult{Bad: fmt.Sprintf("I1:lookup-tables-disagree: %s: Values().ByNumber(%d)", ed.FullName(), v.Number())}
			}
			h.s(string(v.Name()))
			h.u(uint64(v.Number()))
		}
		h.u(uint64(ed.ReservedNames().Len()))
		for n := protoreflect.EnumNumber(-2); n < 20; n++ {
			if ed.ReservedRanges().Has(n) {
				h.u(uint64(n))
			}
		}
	case "field-targets":
		ms := c19AllMessages(fd)
		if len(ms) == 0 {
			break
		}
		md := ms[int(op.N)%len(ms)]
		fds := md.Fields()
		for i := 0; i < fds.Len(); i++ {
			f := fds.Get(i)
			h.s(string(f.Name()))
			if t := f.Message(); t != nil {
				h.s(string(t.FullName()))
				if t.IsPlaceholder() {
					h.u(0x91ace)
				} else {
					h.u(uint64(t.Fields().Len()))
				}
				if ptrs != nil {
					*ptrs = append(*ptrs, ptrRec{"target:" + string(f.FullName()), descPtr(t), "message-target"})
				}
			}
			if e := f.Enum(); e != nil {
				h.s(string(e.FullName()))
				if !e.IsPlaceholder() {
					h.u(uint64(e.Values().Len()))
				}
			}
			if o := f.ContainingOneof(); o != nil {
				h.s(string(o.Name()))
			}
			if f.HasDefault() {
				h.s(f.Default().String())
				if dv := f.DefaultEnumValue(); dv != nil {
					h.s(string(dv.Name()))
				}
			}
			flags := 0
			if f.HasPresence() {
				flags |= 1
			}
			if f.IsPacked() {
				flags |= 2
			}
			if f.IsMap() {
				flags |= 4
				h.u(uint64(f.MapKey().Kind()))
				h.u(uint64(f.MapValue().Kind()))
			}
			if f.HasOptionalKeyword() {
				flags |= 8
			}
			if gen.IsLazy(f) {
				flags |= 16
			}
			h.u(uint64(flags))
		}
		for i := 0; i < fd.Extensions().Len(); i++ {
			x := fd.Extensions().Get(i)
			h.s(string(x.FullName()))
			h.s(string(x.ContainingMessage().FullName()))
			if t := x.Message(); t != nil {
				h.s(string(t.FullName()))
			}
		}
	case "options":
		b, _ := proto.MarshalOptions{Deterministic: true}.Marshal(fd.Options())
		h.b(b)
		ms := c19AllMessages(fd)
		for i := 0; i < len(ms) && i < 6; i++ {
			md := ms[(int(op.N)+i)%len(ms)]
			b, _ := proto.MarshalOptions{Deterministic: true}.Marshal(md.Options())
			h.b(b)
			for j := 0; j < md.Fields().Len(); j++ {
				b, _ := proto.MarshalOptions{Deterministic: true}.Marshal(md.Fields().Get(j).Options())
				h.b(b)
			}
		}
	case "srcloc":
		sl := fd.SourceLocations()
		h.u(uint64(sl.Len()))
		ms := c19AllMessages(fd)
		if len(ms) > 0 {
			loc := sl.ByDescriptor(ms[int(op.N)%len(ms)])
			h.u(uint64(loc.StartLine))
			h.s(loc.LeadingComments)
		}
		im := fd.Imports()
		for i := 0; i < im.Len(); i++ {
			h.s(im.Get(i).Path())
			if im.Get(i).IsPlaceholder() {
				h.u(1)
			}
			if im.Get(i).IsPublic {
				h.u(2)
			}
		}
	case "find-name", "find":
		ms := c19AllMessages(fd)
		if len(ms) == 0 || reg == nil {
			break
		}
		md := ms[int(op.N)%len(ms)]
		d, err := reg.FindDescriptorByName(md.FullName())
		if err != nil {
			return sim.OpResult{Bad: fmt.Sprintf("I2:find: FindDescriptorByName(%s): %v", md.FullName(), err)}
		}
		if d != protoreflect.Descriptor(md) && d.FullName() != md.FullName() {
			return sim.OpResult{Bad: fmt.Sprintf("I2:find: FindDescriptorByName(%s) returned %s", md.FullName(), d.FullName())}
		}
		if md.Fields().Len() > 0 {
			f := md.Fields().Get(int(op.M) % md.Fields().Len())
			d, err := reg.FindDescriptorByName(f.FullName())
			if err != nil || d.FullName() != f.FullName() {
				return sim.OpResult{Bad: fmt.Sprintf("I2:find: FindDescriptorByName(%s): %v", f.FullName(), err)}
			}
		}
		f2, err := reg.FindFileByPath(fd.Path())
		if err != nil || f2.Path() != fd.Path() {
			return sim.OpResult{Bad: fmt.Sprintf("I2:find: FindFileByPath(%s): %v", fd.Path(), err)}
		}
		h.s(string(md.FullName()))
		h.u(uint64(reg.NumFiles()))
	}
	return sim.OpResult{Digest: h.h}
}

// c19RealTypes is the global Types registry of the process as the generated code filled it at init.
var c19RealTypes = protoregistry.GlobalTypes

// c19MsgOp runs a behaviour-observing operation through message m (which is
// backed by the MessageInfo under test). wire is the content to decode.
func c19MsgOp(op string, newMsg func() proto.Message, wire []byte) sim.OpResult {
	h := newHasher()
	// extensions are resolved against the process's real global registry, which no client writes to: the
	// swapped-in one gains extension types while other clients register, and two decodes of one operation
	// would otherwise see different registries (first unknown field, then extension)
	uo := proto.UnmarshalOptions{AllowPartial: true, Resolver: c19RealTypes}
	mo := proto.MarshalOptions{AllowPartial: true, Deterministic: true}
	switch strings.TrimPrefix(op, "mi:") {
	case "roundtrip":
		m := newMsg()
		if err := uo.Unmarshal(wire, m); err != nil {
			return sim.OpResult{Bad: "I2:roundtrip: unmarshal: " + err.Error()}
		}
		b, err := mo.Marshal(m)
		if err != nil {
			return sim.OpResult{Bad: "I2:roundtrip: marshal: " + err.Error()}
		}
		h.b(b)
		m2 := newMsg()
		if err := uo.Unmarshal(b, m2); err != nil || !proto.Equal(m, m2) {
			return sim.OpResult{Bad: fmt.Sprintf("I2:roundtrip: re-decoded message differs (err %v)", err)}
		}
		// (Clone is exercised, but whether Clone(m) is Equal to m is not part of
		// this property: it goes into the digest and is compared with the
		// sequential run like everything else.)
		// (not for fresh MessageInfos with fresh descriptors: Clone allocates through the
		// generated type's own, global, MessageInfo, whose field descriptors are different objects)
		if !strings.HasPrefix(op, "mi:") {
			if proto.Equal(proto.Clone(m), m) {
				h.u(1)
			}
		}
	case "reflect":
		m := newMsg()
		if err := uo.Unmarshal(wire, m); err != nil {
			return sim.OpResult{Bad: "I2:reflect: unmarshal: " + err.Error()}
		}
		h.u(deepDigest(m.ProtoReflect(), 3, nil, nil))
		md := m.ProtoReflect().Descriptor()
		for i := 0; i < md.Fields().Len(); i++ {
			fd := md.Fields().Get(i)
			if m.ProtoReflect().Has(fd) {
				h.u(uint64(fd.Number()))
			}
			if fd.ContainingOneof() != nil {
				if w := m.ProtoReflect().WhichOneof(fd.ContainingOneof()); w != nil {
					h.u(uint64(w.Number()) << 20)
				}
			}
		}
	case "json":
		m := newMsg()
		if err := uo.Unmarshal(wire, m); err != nil {
			return sim.OpResult{Bad: "I2:json: unmarshal: " + err.Error()}
		}
		b, err := protojson.MarshalOptions{AllowPartial: true}.Marshal(m)
		if err != nil {
			h.s(err.Error())
		}
		h.b(b)
	case "size":
		m := newMsg()
		if err := uo.Unmarshal(wire, m); err != nil {
			return sim.OpResult{Bad: "I2:size: unmarshal: " + err.Error()}
		}
		h.u(uint64(mo.Size(m)))
		dst := newMsg()
		proto.Merge(dst, m)
		h.u(uint64(mo.Size(dst)))
	case "new":
		m := newMsg()
		n := m.ProtoReflect().New()
		h.s(string(n.Descriptor().FullName()))
		h.u(uint64(proto.Size(n.Interface())))
		if n.IsValid() {
			h.u(1)
		}
		z := m.ProtoReflect().Type().Zero()
		if z.IsValid() {
			h.u(2)
		}
	case "checkinit":
		m := newMsg()
		uo.Unmarshal(wire, m)
		if err := proto.CheckInitialized(m); err != nil {
			h.s(err.Error())
		}
		e := newMsg()
		if err := proto.CheckInitialized(e); err != nil {
			h.s(err.Error())
		}
		// every singular message field holding an empty child: required fields
		// one level down must be reported
		d := newMsg()
		dm := d.ProtoReflect()
		for i := 0; i < dm.Descriptor().Fields().Len(); i++ {
			fd := dm.Descriptor().Fields().Get(i)
			if fd.Message() != nil && !fd.IsList() && !fd.IsMap() && !fd.IsWeak() {
				dm.Mutable(fd)
			}
		}
		if err := proto.CheckInitialized(d); err != nil {
			h.s(err.Error())
		} else {
			h.u(0x1417)
		}
		if _, err := proto.Marshal(d); err != nil {
			h.u(0xe44)
		}
	}
	return sim.OpResult{Digest: h.h}
}

// c19Legacy: per legacy package (old generator output: Descriptor() methods over a gzipped file
// descriptor shared by all types of the file), three message types of the same file.
var c19Legacy = [][3]func() any{
	{func() any { return new(l2a.Message) }, func() any { return new(l2a.Message_ChildMessage) }, func() any { return new(l2a.SiblingMessage) }},
	{func() any { return new(l2b.Message) }, func() any { return new(l2b.Message_ChildMessage) }, func() any { return new(l2b.SiblingMessage) }},
	{func() any { return new(l2c.Message) }, func() any { return new(l2c.Message_ChildMessage) }, func() any { return new(l2c.SiblingMessage) }},
	{func() any { return new(l2d.Message) }, func() any { return new(l2d.Message_ChildMessage) }, func() any { return new(l2d.SiblingMessage) }},
	{func() any { return new(l2e.Message) }, func() any { return new(l2e.Message_ChildMessage) }, func() any { return new(l2e.SiblingMessage) }},
	{func() any { return new(l2f.Message) }, func() any { return new(l2f.Message_ChildMessage) }, func() any { return new(l2f.SiblingMessage) }},
	{func() any { return new(l3a.Message) }, func() any { return new(l3a.Message_ChildMessage) }, func() any { return new(l3a.SiblingMessage) }},
	{func() any { return new(l3b.Message) }, func() any { return new(l3b.Message_ChildMessage) }, func() any { return new(l3b.SiblingMessage) }},
	{func() any { return new(l3c.Message) }, func() any { return new(l3c.Message_ChildMessage) }, func() any { return new(l3c.SiblingMessage) }},
	{func() any { return new(l3d.Message) }, func() any { return new(l3d.Message_ChildMessage) }, func() any { return new(l3d.SiblingMessage) }},
	{func() any { return new(l3e.Message) }, func() any { return new(l3e.Message_ChildMessage) }, func() any { return new(l3e.SiblingMessage) }},
	{func() any { return new(l3f.Message) }, func() any { return new(l3f.Message_ChildMessage) }, func() any { return new(l3f.SiblingMessage) }},
}

// c19LegacyOp makes (possibly first) use of one message type of a legacy package, fills the
// submessages reachable from it through the descriptors it hands out, and checks that the types of
// one file agree with each other: one file descriptor, and a message-typed field's descriptor is the
// descriptor its Go type reports.
func c19LegacyOp(n int64) sim.OpResult {
	all := append(append([][3]func() any{}, c19FreshLegacy...), c19Legacy...)
	pkg := all[int(n)%len(all)]
	kind := int(n/int64(len(all))) % 3
	m := protoimpl.X.ProtoMessageV2Of(pkg[kind]()).ProtoReflect()
	md := m.Descriptor()
	h := newHasher()
	h.s(string(md.FullName()))
	var fill func(m protoreflect.Message, depth int)
	fill = func(m protoreflect.Message, depth int) {
		fds := m.Descriptor().Fields()
		for i := 0; i < fds.Len(); i++ {
			f := fds.Get(i)
			h.s(string(f.Name()))
			h.u(uint64(f.Kind()))
			switch {
			case f.IsMap() || f.ContainingOneof() != nil:
			case f.Message() != nil && depth > 0:
				h.s(string(f.Message().FullName()))
				if f.IsList() {
					fill(m.Mutable(f).List().AppendMutable().Message(), depth-1)
				} else {
					fill(m.Mutable(f).Message(), depth-1)
				}
			case f.Kind() == protoreflect.StringKind && !f.IsList():
				m.Set(f, protoreflect.ValueOfString("x"))
			case f.Kind() == protoreflect.Int32Kind && !f.IsList():
				m.Set(f, protoreflect.ValueOfInt32(7))
			}
		}
	}
	fill(m, 2)
	b, err := proto.MarshalOptions{AllowPartial: true, Deterministic: true}.Marshal(m.Interface())
	if err != nil {
		h.s(err.Error())
	}
	h.b(b)
	h.u(uint64(proto.Size(m.Interface())))
	// agreement between the types of the file
	var mds [3]protoreflect.MessageDescriptor
	for k := range pkg {
		mds[k] = protoimpl.X.ProtoMessageV2Of(pkg[k]()).ProtoReflect().Descriptor()
	}
	bad := ""
	for k := 1; k < 3; k++ {
		if mds[k].ParentFile() != mds[0].ParentFile() {
			bad = fmt.Sprintf("legacy-descriptors-disagree: %s and %s are declared in the same legacy file but report different FileDescriptor instances", mds[0].FullName(), mds[k].FullName())
		}
	}
	fds := mds[0].Fields()
	for i := 0; i < fds.Len() && bad == ""; i++ {
		if f := fds.Get(i); f.Message() != nil && !f.IsMap() {
			for k := 1; k < 3; k++ {
				if f.Message().FullName() == mds[k].FullName() && f.Message() != mds[k] {
					bad = fmt.Sprintf("legacy-descriptors-disagree: field %s has message type %s, but its descriptor is not the one the Go type %T reports", f.FullName(), mds[k].FullName(), pkg[k]())
				}
			}
		}
	}
	return sim.OpResult{Digest: h.h, Bad: bad}
}

var c19DynExtCache []protoreflect.ExtensionType

// c19DynExts: dynamicpb extension types (over protodesc-rebuilt descriptors) of the singular varint
// extensions of TestAllExtensions.
func c19DynExts() []protoreflect.ExtensionType {
	if c19DynExtCache == nil {
		md := gen.Rebuilt(gen.TExt2)
		if md == nil {
			return nil
		}
		for _, xt := range gen.ExtensionsOf(md) {
			xd := xt.TypeDescriptor()
			if xd.IsList() {
				continue
			}
			switch xd.Kind() {
			case protoreflect.Int32Kind, protoreflect.Int64Kind, protoreflect.Uint32Kind, protoreflect.Uint64Kind:
				c19DynExtCache = append(c19DynExtCache, xt)
			}
		}
	}
	return c19DynExtCache
}

func c19EditionsProto() *descriptorpb.FileDescriptorProto {
	fd, err := protoregistry.GlobalFiles.FindFileByPath("internal/testprotos/testeditions/test_import.proto")
	if err != nil {
		return nil
	}
	return protodesc.ToFileDescriptorProto(fd)
}

func (c19) Run(s *scn.Scn, x *sim.Exec) {
	if len(s.Phases) == 0 {
		return
	}
	if s.Mode == "process" {
		c19Process(s, x)
		return
	}
	c19LoadRaw()
	ph := &s.Phases[0]
	nc := len(ph.Clients)
	env := &c19Env{}
	var roots []string
	for _, o := range s.Objects {
		if o.Type == "file" {
			roots = append(roots, o.Note)
		}
		if o.Type == "mi" {
			// the fresh MessageInfo gets a fresh descriptor too (caches keyed by descriptor, such as
			// needsInitCheck, are then first-used as well): its file joins the fresh file set
			if mt, err := protoregistry.GlobalTypes.FindMessageByName(protoreflect.FullName(o.Note)); err == nil {
				roots = append(roots, mt.Descriptor().ParentFile().Path())
			}
		}
	}
	if len(roots) == 0 {
		roots = []string{c19RootFiles[0]}
	}
	closure := c19Closure(roots)
	env.reg, env.files = c19BuildFiles(closure, s.P["reverse"] == 1)
	byPath := map[string]protoreflect.FileDescriptor{}
	for _, f := range env.files {
		byPath[f.Path()] = f
	}
	env.roots = make([]protoreflect.FileDescriptor, len(s.Objects))
	env.mis = make([]*impl.MessageInfo, len(s.Objects))
	env.miTypes = make([]string, len(s.Objects))
	env.miWire = make([][]byte, len(s.Objects))
	for i, o := range s.Objects {
		switch o.Type {
		case "ab":
			env.abShapes = abMakeShapes(o.Seed)
			env.abTypes = abBuildTypes(env.abShapes)
		case "file":
			env.roots[i] = byPath[o.Note]
		case "mi":
			mt, err := protoregistry.GlobalTypes.FindMessageByName(protoreflect.FullName(o.Note))
			if err != nil {
				continue
			}
			orig, ok := mt.(*impl.MessageInfo)
			if !ok {
				continue
			}
			desc := orig.Desc
			if fd, err := env.reg.FindDescriptorByName(orig.Desc.FullName()); err == nil {
				if fmd, ok := fd.(protoreflect.MessageDescriptor); ok {
					desc = fmd
				}
			}
			env.mis[i] = &impl.MessageInfo{GoReflectType: orig.GoReflectType, Desc: desc, Exporter: orig.Exporter, OneofWrappers: orig.OneofWrappers}
			env.miTypes[i] = o.Note
			op := gen.DefaultOpts()
			op.MaxDepth = 2
			op.FieldPerm = 150
			m := gen.New(sim.NewRng(o.Seed), mt, op)
			env.miWire[i], _ = proto.MarshalOptions{AllowPartial: true, Deterministic: true}.Marshal(m)
		}
	}
	// a fresh extension info per generated extension of test.proto's ext file
	protoregistry.GlobalTypes.RangeExtensionsByMessage(protoreflect.FullName(gen.TExt2), func(xt protoreflect.ExtensionType) bool {
		if orig, ok := xt.(*impl.ExtensionInfo); ok {
			xi := &impl.ExtensionInfo{ExtendedType: orig.ExtendedType, ExtensionType: orig.ExtensionType, Field: orig.Field, Name: orig.Name, Tag: orig.Tag, Filename: orig.Filename}
			impl.InitExtensionInfo(xi, orig.TypeDescriptor().Descriptor(), reflect.TypeOf(orig.InterfaceOf(orig.Zero())))
			env.xis = append(env.xis, xi)
		}
		return true
	})
	sort.Slice(env.xis, func(i, j int) bool { return env.xis[i].Field < env.xis[j].Field })
	if len(env.xis) > 16 {
		env.xis = env.xis[:16]
	}
	env.dynT = dynamicpb.NewTypes(env.reg)
	// fresh registries swapped in for the duration of the run
	env.gfiles, env.gtypes = new(protoregistry.Files), new(protoregistry.Types)
	savedF, savedT := protoregistry.GlobalFiles, protoregistry.GlobalTypes
	// a second fresh copy of the closure supplies the files that clients register globally
	_, regFiles := c19BuildFiles(closure, false)
	env.regSets = make([][]protoreflect.FileDescriptor, nc)
	for i, f := range regFiles {
		env.regSets[i%nc] = append(env.regSets[i%nc], f)
	}
	if s.P["greg_bias"] == 1 {
		// files that declare extensions first (registration is order-independent for files of one
		// closure copy as far as the registry is concerned: it does not check that imports are registered)
		for c := range env.regSets {
			sort.SliceStable(env.regSets[c], func(i, j int) bool {
				return env.regSets[c][i].Extensions().Len() > 0 && env.regSets[c][j].Extensions().Len() == 0
			})
		}
	}
	extMT := gen.Type(gen.TExt2) // (looked up before the global registries are swapped out)
	dynExts := c19DynExts()      // (built here, not by a client: harness caches are not the clients' to initialise)
	regNext := make([]int, nc)
	regExts := make([][]protoreflect.ExtensionDescriptor, nc)
	ptrs := make([][]ptrRec, nc)
	edProto := c19EditionsProto()

	protoregistry.GlobalFiles, protoregistry.GlobalTypes = env.gfiles, env.gtypes
	logs := x.RunPhase(0, func(client, opi int, op *scn.Op) sim.OpResult {
		obj := op.Obj
		if obj >= len(s.Objects) {
			obj = 0
		}
		switch op.Op {
		case "file-proto", "msg-lookups", "enum-lookups", "field-targets", "options", "srcloc", "find-name":
			fd := env.roots[obj]
			if fd == nil {
				fd = env.files[int(op.M)%len(env.files)]
			}
			return c19DescOp(op, fd, env.reg, &ptrs[client])
		case "dyn-roundtrip":
			fd := env.files[int(op.M)%len(env.files)]
			ms := c19AllMessages(fd)
			if len(ms) == 0 {
				return sim.OpResult{}
			}
			md := ms[int(op.N)%len(ms)]
			if md.IsMapEntry() {
				return sim.OpResult{}
			}
			m := dynamicpb.NewMessage(md)
			o := gen.DefaultOpts()
			o.MaxDepth = 1
			o.Extensions = false
			o.FieldPerm = 200
			gen.Populate(sim.NewRng(uint64(op.N)), m, o)
			b, err := proto.MarshalOptions{AllowPartial: true, Deterministic: true}.Marshal(m)
			if err != nil {
				// e.g. MessageSet without the protolegacy tag: the error is the result
				return sim.OpResult{Digest: sim.HashStr(err.Error())}
			}
			m2 := dynamicpb.NewMessage(md)
			if err := (proto.UnmarshalOptions{AllowPartial: true, Resolver: env.dynT}).Unmarshal(b, m2); err != nil || !proto.Equal(m, m2) {
				return sim.OpResult{Bad: fmt.Sprintf("I2:dyn-roundtrip: differs (err %v)", err)}
			}
			return sim.OpResult{Digest: sim.Hash64(b)}
		case "dyntypes-ext":
			h := newHasher()
			for _, fd := range env.files {
				for i := 0; i < fd.Extensions().Len(); i++ {
					xd := fd.Extensions().Get(i)
					xt, err := env.dynT.FindExtensionByNumber(xd.ContainingMessage().FullName(), xd.Number())
					if err != nil || xt.TypeDescriptor().FullName() != xd.FullName() {
						return sim.OpResult{Bad: fmt.Sprintf("I2:dyntypes-ext: FindExtensionByNumber(%s,%d): %v", xd.ContainingMessage().FullName(), xd.Number(), err)}
					}
					xt2, err := env.dynT.FindExtensionByName(xd.FullName())
					if err != nil || xt2.TypeDescriptor().Number() != xd.Number() {
						return sim.OpResult{Bad: fmt.Sprintf("I2:dyntypes-ext: FindExtensionByName(%s): %v", xd.FullName(), err)}
					}
					h.s(string(xd.FullName()))
				}
			}
			return sim.OpResult{Digest: h.h}
		case "mi-roundtrip", "mi-reflect", "mi-json", "mi-size", "mi-new", "mi-checkinit":
			mi := env.mis[obj]
			if mi == nil {
				for i := range env.mis {
					if env.mis[i] != nil {
						mi, obj = env.mis[i], i
						break
					}
				}
			}
			if mi == nil {
				return sim.OpResult{}
			}
			newMsg := func() proto.Message {
				return pmsg{mi.MessageOf(reflect.New(mi.GoReflectType.Elem()).Interface())}
			}
			return c19MsgOp("mi:"+strings.TrimPrefix(op.Op, "mi-"), newMsg, env.miWire[obj])
		case "ab-desc", "ab-roundtrip":
			if env.abTypes == nil {
				return sim.OpResult{}
			}
			return abOp(x, strings.TrimPrefix(op.Op, "ab-"), env.abShapes, env.abTypes, int(op.N)%len(env.abTypes), uint64(op.M))
		case "dynext-use":
			// extension types that are not generated ones (dynamicpb over loaded descriptors), used on a
			// generated message: every client its own type, at the same time; the encoding is known
			xts := dynExts
			if len(xts) == 0 {
				return sim.OpResult{}
			}
			h := newHasher()
			for rep := 0; rep < 3; rep++ {
				xt := xts[(client*5+int(op.N)+rep*int(op.M%3))%len(xts)]
				xd := xt.TypeDescriptor()
				m := extMT.New().Interface()
				val := uint64(1 + (int(op.M)+rep)%100)
				var want []byte
				want = protowire.AppendTag(want, xd.Number(), protowire.VarintType)
				switch xd.Kind() {
				case protoreflect.Int32Kind:
					m.ProtoReflect().Set(xd, protoreflect.ValueOfInt32(int32(val)))
				case protoreflect.Int64Kind:
					m.ProtoReflect().Set(xd, protoreflect.ValueOfInt64(int64(val)))
				case protoreflect.Uint32Kind:
					m.ProtoReflect().Set(xd, protoreflect.ValueOfUint32(uint32(val)))
				case protoreflect.Uint64Kind:
					m.ProtoReflect().Set(xd, protoreflect.ValueOfUint64(val))
				default:
					continue
				}
				want = protowire.AppendVarint(want, val)
				b, err := proto.Marshal(m)
				if err != nil || !bytes.Equal(b, want) {
					return sim.OpResult{Bad: fmt.Sprintf("I2:dynext-wrong-bytes: generated message with the dynamic extension %s (number %d) set to %d marshals to %x (error %v), want %x", xd.FullName(), xd.Number(), val, b, err, want)}
				}
				if got := proto.Size(m); got != len(want) {
					return sim.OpResult{Bad: fmt.Sprintf("I2:dynext-wrong-size: generated message with the dynamic extension %s set: Size %d, want %d", xd.FullName(), got, len(want))}
				}
				h.b(b)
			}
			return sim.OpResult{Digest: h.h}
		case "xi-use":
			if len(env.xis) == 0 {
				return sim.OpResult{}
			}
			xi := env.xis[int(op.N)%len(env.xis)]
			h := newHasher()
			td := xi.TypeDescriptor()
			h.s(string(td.FullName()))
			z := xi.Zero()
			n := xi.New()
			h.u(uint64(td.Kind()))
			if xi.IsValidValue(n) {
				h.u(1)
			}
			if xi.IsValidInterface(xi.InterfaceOf(z)) {
				h.u(2)
			}
			ptrs[client] = append(ptrs[client], ptrRec{"xi:" + string(td.FullName()), descPtr(td.Descriptor()), "xi"})
			return sim.OpResult{Digest: h.h}
		case "greg-register":
			set := env.regSets[client]
			if regNext[client] >= len(set) {
				return sim.OpResult{Relaxed: true}
			}
			fd := set[regNext[client]]
			regNext[client]++
			if err := protoregistry.GlobalFiles.RegisterFile(fd); err != nil {
				return sim.OpResult{Bad: "I2:greg-register: RegisterFile of a non-conflicting file failed: " + err.Error()}
			}
			for i := 0; i < fd.Messages().Len() && i < 3; i++ {
				mt := dynamicpb.NewMessageType(fd.Messages().Get(i))
				if err := protoregistry.GlobalTypes.RegisterMessage(mt); err != nil {
					return sim.OpResult{Bad: "I2:greg-register: RegisterMessage failed: " + err.Error()}
				}
			}
			for i := 0; i < fd.Extensions().Len() && i < 3; i++ {
				xd := fd.Extensions().Get(i)
				if xd.ContainingMessage().IsPlaceholder() {
					continue
				}
				if err := protoregistry.GlobalTypes.RegisterExtension(dynamicpb.NewExtensionType(xd)); err != nil {
					return sim.OpResult{Bad: "I2:greg-register: RegisterExtension failed: " + err.Error()}
				}
				regExts[client] = append(regExts[client], xd)
				if xt, err := protoregistry.GlobalTypes.FindExtensionByNumber(xd.ContainingMessage().FullName(), xd.Number()); err != nil || xt.TypeDescriptor().Descriptor() != xd {
					return sim.OpResult{Bad: fmt.Sprintf("I2:greg-register: extension %s not found by number right after its registration (%v)", xd.FullName(), err)}
				}
				if _, err := protoregistry.GlobalTypes.FindExtensionByName(xd.FullName()); err != nil {
					return sim.OpResult{Bad: fmt.Sprintf("I2:greg-register: extension %s not found by name right after its registration (%v)", xd.FullName(), err)}
				}
			}
			// what this client registered it must find again
			if got, err := protoregistry.GlobalFiles.FindFileByPath(fd.Path()); err != nil || got != fd {
				return sim.OpResult{Bad: fmt.Sprintf("I2:greg-register: file %s not found after its registration (%v)", fd.Path(), err)}
			}
			return sim.OpResult{Relaxed: true}
		case "greg-find":
			fd := regFiles[int(op.N)%len(regFiles)]
			if op.N%2 == 0 && nc > 1 {
				// the file another client registers next (or has just registered)
				// (one of the first files of its list: no look at the other client's progress, which is its own state)
				o := (client + 1 + int(op.M)%(nc-1)) % nc
				if set := env.regSets[o]; len(set) > 0 {
					fd = set[int(op.N/2)%min(len(set), 3)]
				}
			}
			got, err := protoregistry.GlobalFiles.FindFileByPath(fd.Path())
			if err == nil && got != fd {
				return sim.OpResult{Bad: "I2:greg-find: FindFileByPath returned a different file"}
			}
			if err != nil && err != protoregistry.NotFound {
				return sim.OpResult{Bad: "I2:greg-find: unexpected error " + err.Error()}
			}
			if fd.Messages().Len() > 0 {
				md := fd.Messages().Get(0)
				d, err2 := protoregistry.GlobalFiles.FindDescriptorByName(md.FullName())
				if err2 == nil && d != protoreflect.Descriptor(md) {
					return sim.OpResult{Bad: "I2:greg-find: FindDescriptorByName returned a different descriptor"}
				}
				if err == nil && err2 != nil {
					return sim.OpResult{Bad: "I2:greg-find: file is registered but its first message is not found: " + err2.Error()}
				}
				if mt, err3 := protoregistry.GlobalTypes.FindMessageByName(md.FullName()); err3 == nil && mt.Descriptor() != md {
					return sim.OpResult{Bad: "I2:greg-find: GlobalTypes returned a type for a different descriptor"}
				}
			}
			if fd.Extensions().Len() > 0 {
				// by number, the way the wire decoder asks: found (then the right one) or not yet there
				xd := fd.Extensions().Get(int(op.M) % min(fd.Extensions().Len(), 3)) // (registration takes the first three)
				if !xd.ContainingMessage().IsPlaceholder() {
					xt, err4 := protoregistry.GlobalTypes.FindExtensionByNumber(xd.ContainingMessage().FullName(), xd.Number())
					if err4 == nil && xt.TypeDescriptor().Descriptor() != xd {
						return sim.OpResult{Bad: "I2:greg-find: FindExtensionByNumber returned a type for a different descriptor"}
					}
					if err4 != nil && err4 != protoregistry.NotFound {
						return sim.OpResult{Bad: "I2:greg-find: unexpected error " + err4.Error()}
					}
				}
			}
			return sim.OpResult{Relaxed: true}
		case "greg-range":
			n := 0
			protoregistry.GlobalFiles.RangeFiles(func(protoreflect.FileDescriptor) bool { n++; return true })
			k := 0
			protoregistry.GlobalTypes.RangeMessages(func(protoreflect.MessageType) bool { k++; return true })
			if n > len(regFiles) || n < 0 {
				return sim.OpResult{Bad: fmt.Sprintf("I2:greg-range: RangeFiles visited %d files, only %d exist", n, len(regFiles))}
			}
			return sim.OpResult{Relaxed: true}
		case "newfile":
			if edProto == nil {
				return sim.OpResult{}
			}
			fd, err := protodesc.NewFile(edProto, savedF)
			if err != nil {
				return sim.OpResult{Bad: "I2:newfile: " + err.Error()}
			}
			b, _ := proto.MarshalOptions{Deterministic: true}.Marshal(protodesc.ToFileDescriptorProto(fd))
			return sim.OpResult{Digest: sim.Hash64(b)}
		}
		return sim.OpResult{}
	})
	// at quiescence, still on the swapped-in global registries: every extension a client registered is found
	var lost string
	for ci := range regExts {
		for _, xd := range regExts[ci] {
			if xt, err := protoregistry.GlobalTypes.FindExtensionByNumber(xd.ContainingMessage().FullName(), xd.Number()); (err != nil || xt.TypeDescriptor().Descriptor() != xd) && lost == "" {
				lost = fmt.Sprintf("extension %s (number %d of %s), registered successfully by client %d, is not found by number after all clients finished: %v", xd.FullName(), xd.Number(), xd.ContainingMessage().FullName(), ci, err)
			}
		}
	}
	protoregistry.GlobalFiles, protoregistry.GlobalTypes = savedF, savedT
	if x.Failed() {
		return
	}
	if lost != "" {
		x.Fail("I2:registered-extension-lost", "%s", lost)
		return
	}
	x.CompareWithDry(0, logs)
	// I1: single descriptor instance across clients
	inst := map[string]ptrRec{}
	for ci := range ptrs {
		for _, p := range ptrs[ci] {
			if p.Ptr == 0 {
				continue
			}
			if q, ok := inst[p.Path]; ok && q.Ptr != p.Ptr {
				x.Fail("I1:two-descriptor-instances", "clients obtained two different descriptor instances for %s (%s)", p.Path, p.Route)
				return
			}
			inst[p.Path] = p
		}
	}
	x.Probe("descriptor-instances-compared", int64(len(inst)))
	x.Probe("inproc-scenarios", 1)
	// after the run: registry content is exactly what was registered
	want := 0
	for ci := range regNext {
		want += regNext[ci]
	}
	if got := env.gfiles.NumFiles(); got != want {
		x.Fail("I2:registry-count", "clients registered %d files in total, the registry holds %d", want, got)
	}
	if want > 0 {
		x.Probe("global-registrations", int64(want))
	}
}

// ---- process mode ----

func c19ProcOp(s *scn.Scn, op *scn.Op) sim.OpResult {
	obj := op.Obj
	if obj >= len(s.Objects) {
		return sim.OpResult{}
	}
	o := s.Objects[obj]
	newMsg := func() proto.Message { return gen.NewMsg(o.Type) }
	switch op.Op {
	case "pm-roundtrip":
		return c19MsgOp("roundtrip", newMsg, o.Wire)
	case "pm-json":
		return c19MsgOp("json", newMsg, o.Wire)
	case "pm-desc", "pm-file-proto", "pm-find":
		fd := newMsg().ProtoReflect().Descriptor().ParentFile()
		return c19DescOp(op, fd, protoregistry.GlobalFiles, nil)
	case "pm-legacy":
		return c19LegacyOp(op.N)
	case "pm-aberrant":
		r, _ := abHandOp(op.N)
		return r
	case "pm-ext":
		h := newHasher()
		var xts []protoreflect.ExtensionType
		protoregistry.GlobalTypes.RangeExtensionsByMessage(protoreflect.FullName(gen.TExt2), func(xt protoreflect.ExtensionType) bool {
			xts = append(xts, xt)
			return true
		})
		sort.Slice(xts, func(i, j int) bool { return xts[i].TypeDescriptor().Number() < xts[j].TypeDescriptor().Number() })
		if len(xts) == 0 {
			return sim.OpResult{}
		}
		for k := 0; k < 4; k++ {
			xt := xts[(int(op.N)+k)%len(xts)]
			td := xt.TypeDescriptor()
			h.s(string(td.FullName()))
			z := xt.Zero()
			if xt.IsValidValue(z) {
				h.u(1)
			}
			m := gen.NewMsg(gen.TExt2)
			if td.IsList() || td.Message() != nil {
				m.ProtoReflect().Mutable(td)
			} else {
				m.ProtoReflect().Set(td, xt.New())
			}
			b, _ := proto.MarshalOptions{Deterministic: true}.Marshal(m)
			h.b(b)
		}
		return sim.OpResult{Digest: h.h}
	case "pm-newfile":
		p := c19EditionsProto()
		if p == nil {
			return sim.OpResult{}
		}
		fd, err := protodesc.NewFile(p, protoregistry.GlobalFiles)
		if err != nil {
			return sim.OpResult{Bad: "I2:newfile: " + err.Error()}
		}
		b, _ := proto.MarshalOptions{Deterministic: true}.Marshal(protodesc.ToFileDescriptorProto(fd))
		return sim.OpResult{Digest: sim.Hash64(b)}
	case "pm-dyn":
		md := newMsg().ProtoReflect().Descriptor()
		m := dynamicpb.NewMessage(md)
		if err := (proto.UnmarshalOptions{AllowPartial: true}).Unmarshal(o.Wire, m); err != nil {
			return sim.OpResult{Bad: "I2:pm-dyn: " + err.Error()}
		}
		b, err := proto.MarshalOptions{AllowPartial: true, Deterministic: true}.Marshal(m)
		if err != nil {
			return sim.OpResult{Bad: "I2:pm-dyn: " + err.Error()}
		}
		return sim.OpResult{Digest: sim.Hash64(b)}
	}
	return sim.OpResult{}
}

// c19Process: in the parent (a long-running worker) the scenario is handed to
// a fresh child process; in the child (PBSIM_C19_CHILD=1) it is executed.
func c19Process(s *scn.Scn, x *sim.Exec) {
	if os.Getenv("PBSIM_C19_CHILD") == "1" || os.Getenv("PBSIM_WORKDIR") == "" {
		// child (or a direct replay): execute; digests go into the trace-independent result list
		logs := x.RunPhase(0, func(client, opi int, op *scn.Op) sim.OpResult {
			if op.Op == "pm-aberrant" {
				r, bad := abHandOp(op.N)
				if bad != "" {
					x.Fail("aberrant-descriptor-incomplete", "first use of a hand-written legacy struct type without descriptor: %s", bad)
				}
				return r
			}
			return c19ProcOp(s, op)
		})
		if x.Failed() {
			return
		}
		// The sequential reference: the same operations once more, now that
		// everything is initialised, single-threaded. First-use results must
		// equal steady-state results.
		for ci := range logs {
			for oi, r := range logs[ci].Results {
				if r.Relaxed {
					continue
				}
				op := &s.Phases[0].Clients[ci][oi]
				ref := c19ProcOp(s, op)
				if ref.Digest != r.Digest {
					x.Fail("I2:"+op.Op, "client %d op %d (%s on %s): result at concurrent first use (digest %016x) differs from the sequential result (digest %016x)", ci, oi, op.Op, s.Objects[op.Obj%len(s.Objects)].Type, r.Digest, ref.Digest)
					return
				}
			}
		}
		x.Probe("process-scenarios", 1)
		x.Fault("process-restart")
		return
	}
	// parent: re-execute this binary for this one scenario
	dir := os.Getenv("PBSIM_WORKDIR")
	f := filepath.Join(dir, fmt.Sprintf("c19-%d.json", os.Getpid()))
	of := filepath.Join(dir, fmt.Sprintf("c19-%d.out.json", os.Getpid()))
	sf := filepath.Join(dir, fmt.Sprintf("c19-%d.scn.json", os.Getpid()))
	if err := s.Save(f); err != nil {
		return
	}
	os.Remove(of)
	os.Remove(sf)
	cmd := exec.Command(os.Args[0], "-replay", f, "-out", of, "-save", sf)
	cmd.Env = append(os.Environ(), "PBSIM_C19_CHILD=1", fmt.Sprintf("PBSIM_MAPSEED=%d", s.MapSeed|1))
	out, err := cmd.CombinedOutput()
	var o scn.Outcome
	if b, rerr := os.ReadFile(of); rerr == nil {
		json.Unmarshal(b, &o)
	} else if err != nil {
		x.Fail("child-crashed", "fresh process for the scenario died without an outcome: %v\n%s", err, tail(string(out), 3000))
		return
	}
	x.Out.Steps += o.Steps
	x.Out.Switches += o.Switches
	x.Out.SwitchIn += o.SwitchIn
	x.Out.SigHash = o.SigHash
	x.Out.TraceHash = o.TraceHash
	for k, v := range o.Faults {
		x.Out.Faults[k] += v
	}
	for k, v := range o.Probes {
		x.Out.Probes[k] += v
	}
	x.Out.Violation = o.Violation
	x.Tapes = o.Tapes
	if len(x.Tapes) == 0 {
		x.Tapes = make([][]scn.Decision, len(s.Phases))
	}
}

func tail(s string, n int) string {
	if len(s) > n {
		return s[len(s)-n:]
	}
	return s
}
