package work

// Legacy (old-generator style) message types that no init function registers:
// the linked internal/testprotos/legacy packages call RegisterType from their
// init functions, which makes first use of every type and of the shared file
// descriptor before any client runs. These families are first-used by the
// clients of a fresh process: three message types per family that share one
// gzipped file descriptor (loaded on first use of any of them).

import (
	"encoding/hex"
)

// the gzipped FileDescriptorProto of pbsim/lg.proto (package pbsim.lg):
//
//	message Sibling { optional string name = 1; }
//	message Parent {
//	  optional Child child = 1; repeated Child kids = 2; optional Sibling sib = 3; optional int32 n = 4;
//	  message Child { optional string name = 1; optional int32 v = 2; }
//	}
//
// produced once with proto.Marshal + compress/gzip and embedded, so that no descriptor is touched
// at harness initialisation.
const lgGzHex = "1f8b08000000000002ffe2e22b482aceccd5cf49d72b28ca2fc917e200f3f572d29564b9d88333937232f3d28584b858f212735325181518353883c06ca5038c5c6c018945a97925423a5cacc91999392960796e23313d98197a10057ace20d9208822212d2e96eccc9462092605663c8ac16a8494b9988b33932498c1e60a2294421d16049215e2e162cc93605160d4600d62cc93d2e462059b80cdd120a565124c10a56580000000ffff05eb90d9fc000000"

type lgK0 struct{}
type lgK1 struct{}
type lgK2 struct{}
type lgK3 struct{}

// one private copy of the descriptor bytes per family (the cache of loaded legacy files is keyed by
// the address of the first byte)
var lgGz = func() (out [4][]byte) {
	b, err := hex.DecodeString(lgGzHex)
	if err != nil {
		panic(err)
	}
	for i := range out {
		out[i] = append([]byte(nil), b...)
	}
	return
}()

func lgFamily[K any]() int {
	switch any((*K)(nil)).(type) {
	case *lgK0:
		return 0
	case *lgK1:
		return 1
	case *lgK2:
		return 2
	}
	return 3
}

type LgSibling[K any] struct {
	Name             *string `protobuf:"bytes,1,opt,name=name" json:"name,omitempty"`
	XXX_unrecognized []byte  `json:"-"`
}

func (*LgSibling[K]) Reset()                      {}
func (*LgSibling[K]) String() string              { return "LgSibling" }
func (*LgSibling[K]) ProtoMessage()               {}
func (*LgSibling[K]) Descriptor() ([]byte, []int) { return lgGz[lgFamily[K]()], []int{0} }

type LgParent[K any] struct {
	Child            *LgChild[K]   `protobuf:"bytes,1,opt,name=child" json:"child,omitempty"`
	Kids             []*LgChild[K] `protobuf:"bytes,2,rep,name=kids" json:"kids,omitempty"`
	Sib              *LgSibling[K] `protobuf:"bytes,3,opt,name=sib" json:"sib,omitempty"`
	N                *int32        `protobuf:"varint,4,opt,name=n" json:"n,omitempty"`
	XXX_unrecognized []byte        `json:"-"`
}

func (*LgParent[K]) Reset()                      {}
func (*LgParent[K]) String() string              { return "LgParent" }
func (*LgParent[K]) ProtoMessage()               {}
func (*LgParent[K]) Descriptor() ([]byte, []int) { return lgGz[lgFamily[K]()], []int{1} }

type LgChild[K any] struct {
	Name             *string `protobuf:"bytes,1,opt,name=name" json:"name,omitempty"`
	V                *int32  `protobuf:"varint,2,opt,name=v" json:"v,omitempty"`
	XXX_unrecognized []byte  `json:"-"`
}

func (*LgChild[K]) Reset()                      {}
func (*LgChild[K]) String() string              { return "LgChild" }
func (*LgChild[K]) ProtoMessage()               {}
func (*LgChild[K]) Descriptor() ([]byte, []int) { return lgGz[lgFamily[K]()], []int{1, 0} }

func lgFamilyCtors[K any]() [3]func() any {
	return [3]func() any{func() any { return new(LgParent[K]) }, func() any { return new(LgChild[K]) }, func() any { return new(LgSibling[K]) }}
}

// c19FreshLegacy: the families nobody first-uses before the clients do.
var c19FreshLegacy = [][3]func() any{lgFamilyCtors[lgK0](), lgFamilyCtors[lgK1](), lgFamilyCtors[lgK2](), lgFamilyCtors[lgK3]()}
