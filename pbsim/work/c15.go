package work

import (
	"bytes"
	"fmt"
	"reflect"
	"strings"

	"google.golang.org/protobuf/proto"
	"google.golang.org/protobuf/reflect/protoreflect"
	"google.golang.org/protobuf/types/dynamicpb"
	"google.golang.org/protobuf/zverifsim/gen"
	"google.golang.org/protobuf/zverifsim/scn"
	"google.golang.org/protobuf/zverifsim/sim"
)

// C15 — Unmarshal and Reset erase all prior state.
//
// A message goes through a seeded history (sets, clears, oneof switches,
// list/map edits, extension and unknown-field writes, lazy decodes with and
// without expansion, Merge, and failed-decode faults that abort midway and
// leave presence bits, lazy buffers and half-filled collections behind); then
// Unmarshal without Merge, or Reset. The result must be indistinguishable from
// the same bytes decoded into a fresh message (or from a fresh empty one),
// also after every buffer the message was previously decoded from has been
// overwritten. The schedule dimension is where the faults and the lazy
// expansions fall in the history.
type c15 struct{}

func init() { sim.Register(c15{}) }

func (c15) ID() string { return "C15" }

var c15Types = []string{gen.TOpen2, gen.TOpen3, gen.TEditions, gen.THybrid, gen.TOpaque, gen.TOpaque, gen.TLazyNode, gen.TMixedOpq, gen.TExt2, gen.TManyOpaque, gen.TReqLazy, "pbsim.fx.AfterOneof", "opaque.goproto.proto.test3.TestAllTypes", "hybrid.goproto.proto.test3.TestAllTypes"}

var c15Hist = []string{"set-scalar", "set-scalar", "clear-field", "set-msg", "mutable-touch", "gen-set-msg", "gen-clear", "merge-into", "append-list", "map-set", "elem-mutate", "unknown-append",
	"decode-lazy", "decode-lazy", "decode-eager", "decode-merge", "decode-truncated", "decode-corrupt", "touch", "touch", "marshal", "set-ext", "oneof-switch"}

func (c15) Gen(r *sim.Rng, tier string) *scn.Scn {
	s := &scn.Scn{P: map[string]int64{}, NoDryRun: true}
	typ := c15Types[r.Intn(len(c15Types))]
	nobj := r.Range(2, 3)
	var paths [][]int32
	for i := 0; i < nobj; i++ {
		var w []byte
		if lazyCapable(typ) {
			intensity := 0
			if r.Chance(1, 3) {
				intensity = 100
			}
			w, _ = buildLazyWire(r.Fork(), typ, r.Range(2, 3), 2, intensity)
		} else {
			o := gen.DefaultOpts()
			o.MaxDepth = 2
			o.FieldPerm = 90
			m := gen.New(r.Fork(), gen.Type(typ), o)
			w, _ = proto.MarshalOptions{AllowPartial: true}.Marshal(m)
		}
		if i > 0 && r.Chance(1, 8) {
			w = nil // the empty message: Unmarshal of zero bytes must still erase
		}
		s.Objects = append(s.Objects, scn.Object{Type: typ, Wire: w})
		if t, err := decodeEager(typ, w); err == nil {
			paths = append(paths, msgPaths(t.ProtoReflect(), 3)...)
		}
	}
	if r.Chance(1, 6) {
		s.P["dynamic"] = 1
	}
	var ops []scn.Op
	for i, n := 0, r.Range(2, 12); i < n; i++ {
		op := scn.Op{Op: c15Hist[r.Intn(len(c15Hist))], Obj: r.Intn(nobj), N: int64(r.Intn(1 << 16)), S: fmt.Sprint(r.U64() >> 1)}
		if len(paths) > 0 && r.Chance(3, 4) {
			op.Path = paths[r.Intn(len(paths))]
		}
		ops = append(ops, op)
	}
	// the erasing operation
	fin := scn.Op{Op: []string{"final-unmarshal", "final-unmarshal", "final-unmarshal-eager", "final-unmarshal-wrapper", "final-reset", "final-generated-reset", "final-reflect-reset"}[r.Intn(7)], Obj: r.Intn(nobj), N: int64(r.Intn(3))}
	ops = append(ops, fin)
	s.Phases = []scn.Phase{{Clients: [][]scn.Op{ops}, Sched: scn.Sched{Kind: "tape"}}}
	return s
}

// presenceWalk renders Has of every field (recursively for populated
// singular messages), unknown bytes and extension numbers: a view that notices
// leftovers Equal could miss.
func presenceWalk(m protoreflect.Message, depth int, h *hasher) {
	fds := m.Descriptor().Fields()
	for i := 0; i < fds.Len(); i++ {
		fd := fds.Get(i)
		has := m.Has(fd)
		if has {
			h.u(uint64(fd.Number()))
		}
		switch {
		case fd.IsList():
			h.u(uint64(m.Get(fd).List().Len()))
		case fd.IsMap():
			h.u(uint64(m.Get(fd).Map().Len()))
		case fd.Message() != nil:
			if has && depth > 0 {
				presenceWalk(m.Get(fd).Message(), depth-1, h)
			}
		default:
			h.scalar(fd, m.Get(fd))
		}
	}
	for i := 0; i < m.Descriptor().Oneofs().Len(); i++ {
		if w := m.WhichOneof(m.Descriptor().Oneofs().Get(i)); w != nil {
			h.u(uint64(w.Number()) << 32)
		}
	}
	h.b(m.GetUnknown())
	var exts []uint64
	m.Range(func(fd protoreflect.FieldDescriptor, v protoreflect.Value) bool {
		if fd.IsExtension() {
			exts = append(exts, uint64(fd.Number()))
		}
		return true
	})
	for i := 1; i < len(exts); i++ {
		for j := i; j > 0 && exts[j] < exts[j-1]; j-- {
			exts[j], exts[j-1] = exts[j-1], exts[j]
		}
	}
	for _, e := range exts {
		h.u(e << 40)
	}
}

func (c15) Run(s *scn.Scn, x *sim.Exec) {
	if len(s.Objects) == 0 || len(s.Phases) == 0 {
		return
	}
	typ := s.Objects[0].Type
	dyn := s.P["dynamic"] == 1
	newMsg := func() proto.Message {
		if dyn {
			return dynamicpb.NewMessage(gen.Type(typ).Descriptor())
		}
		return gen.NewMsg(typ)
	}
	M := newMsg()
	var owned [][]byte // every buffer M was ever decoded from
	// After a decode that failed midway the content of the message is
	// unspecified. The property speaks about what a later Unmarshal / Reset
	// makes of it, not about reading or editing the wreck, so accesses in that
	// window run protected and a panic there is counted, not reported.
	poisoned := false
	decode := func(wire []byte, uo proto.UnmarshalOptions) error {
		buf := append([]byte(nil), wire...)
		owned = append(owned, buf)
		err := uo.Unmarshal(buf, M)
		if err != nil {
			poisoned = true
		} else if !uo.Merge {
			poisoned = false
		}
		return err
	}
	histShape := typ
	failedDecodes, lazyDecodes, poisonedPanics := 0, 0, 0
	step := func(opi int, op *scn.Op) sim.OpResult {
		var seed uint64
		fmt.Sscan(op.S, &seed)
		o := s.Objects[op.Obj%len(s.Objects)]
		histShape += "," + op.Op
		switch op.Op {
		case "decode-lazy":
			if decode(o.Wire, proto.UnmarshalOptions{AllowPartial: true}) == nil {
				lazyDecodes++
			}
		case "decode-eager":
			decode(o.Wire, proto.UnmarshalOptions{AllowPartial: true, NoLazyDecoding: true})
		case "decode-merge":
			decode(o.Wire, proto.UnmarshalOptions{AllowPartial: true, Merge: true})
		case "decode-truncated":
			// a decode that fails midway and leaves partial state behind
			w := o.Wire
			if len(w) > 3 {
				w = w[:len(w)-1-int(seed%uint64(len(w)/2))]
			}
			if err := decode(w, proto.UnmarshalOptions{AllowPartial: true, Merge: seed%2 == 0}); err != nil {
				failedDecodes++
			}
		case "decode-corrupt":
			if t, ok := gen.ParseWire(gen.Type(typ).Descriptor(), o.Wire); ok {
				if _, _, ok := gen.Corrupt(sim.NewRng(seed), t); ok {
					if err := decode(t.Encode(), proto.UnmarshalOptions{AllowPartial: true, Merge: seed%2 == 0}); err != nil {
						failedDecodes++
					}
				}
			}
		case "touch":
			// expand some of the lazily held content
			walkRead(M.ProtoReflect(), op.Path)
		case "marshal":
			proto.MarshalOptions{AllowPartial: true}.Marshal(M)
		case "set-ext":
			if M.ProtoReflect().Descriptor().ExtensionRanges().Len() > 0 {
				tmp := newMsg()
				gen.Populate(sim.NewRng(seed), tmp.ProtoReflect(), gen.Opts{MaxDepth: 1, MaxList: 2, FieldPerm: 0, Extensions: true})
				proto.Merge(M, tmp)
			}
		case "oneof-switch":
			md := M.ProtoReflect().Descriptor()
			if md.Oneofs().Len() > 0 {
				od := md.Oneofs().Get(int(op.N) % md.Oneofs().Len())
				if od.Fields().Len() > 0 {
					fd := od.Fields().Get(int(seed % uint64(od.Fields().Len())))
					gen.SetField(sim.NewRng(seed), M.ProtoReflect(), fd, gen.DefaultOpts(), 0)
				}
			}
		case "final-unmarshal", "final-unmarshal-eager", "final-unmarshal-wrapper":
			uo := proto.UnmarshalOptions{AllowPartial: true, NoLazyDecoding: op.Op == "final-unmarshal-eager" || (op.Op == "final-unmarshal-wrapper" && op.N == 0)}
			buf := append([]byte(nil), o.Wire...)
			var target proto.Message = M
			if op.Op == "final-unmarshal-wrapper" {
				// the same message behind a proto.Message that has no Reset method of its own (only
				// ProtoReflect): Unmarshal erases it through proto.Reset's reflection fallback
				target = pmsg{M.ProtoReflect()}
			}
			if err := uo.Unmarshal(buf, target); err != nil {
				return sim.OpResult{Bad: "final-unmarshal-rejected: Unmarshal of a valid input into a used message failed: " + err.Error()}
			}
			fresh := newMsg()
			if err := uo.Unmarshal(append([]byte(nil), o.Wire...), fresh); err != nil {
				return sim.OpResult{}
			}
			return c15Compare(M, fresh, owned, "Unmarshal (no Merge) into a message with history")
		case "final-reset", "final-generated-reset", "final-reflect-reset":
			if op.Op == "final-reflect-reset" {
				// a proto.Message without a Reset method of its own: proto.Reset clears it through reflection
				proto.Reset(pmsg{M.ProtoReflect()})
			} else if op.Op == "final-generated-reset" {
				if meth := reflect.ValueOf(M).MethodByName("Reset"); meth.IsValid() && !dyn {
					meth.Call(nil)
				} else {
					proto.Reset(M)
				}
			} else {
				proto.Reset(M)
			}
			if r := c15Compare(M, newMsg(), owned, "Reset of a message with history"); r.Bad != "" {
				return r
			}
			// erased means erased: nothing of the earlier state may resurface when the reset message is
			// used like a fresh one (a merging decode of the same bytes into both)
			uo := proto.UnmarshalOptions{AllowPartial: true, Merge: true, NoLazyDecoding: op.N == 0}
			fresh := newMsg()
			e1 := uo.Unmarshal(append([]byte(nil), o.Wire...), M)
			e2 := uo.Unmarshal(append([]byte(nil), o.Wire...), fresh)
			if e1 != nil || e2 != nil {
				return sim.OpResult{}
			}
			return c15Compare(M, fresh, nil, "decoding into a message after Reset, compared with decoding the same bytes into a fresh message")
		case "reset":
			proto.Reset(M)
			poisoned = false
		default:
			c16Write(M, op, seed, s.Objects)
		}
		return sim.OpResult{}
	}
	x.RunPhase(0, func(client, opi int, op *scn.Op) sim.OpResult {
		// (a merging decode reads the wreck too; only non-merging decodes and Reset are exempt)
		if poisoned && !strings.HasPrefix(op.Op, "final-") && op.Op != "decode-lazy" && op.Op != "decode-eager" && op.Op != "reset" {
			var r sim.OpResult
			if p := sim.Protect(func() { r = step(opi, op) }); p != "" {
				poisonedPanics++
				return sim.OpResult{}
			}
			return r
		}
		return step(opi, op)
	})
	if x.Failed() {
		return
	}
	x.Probe("failed-decodes-in-history", int64(failedDecodes))
	x.Probe("lazy-decodes-in-history", int64(lazyDecodes))
	x.Probe("panics-on-access-after-failed-decode-(not-reported)", int64(poisonedPanics))
	if failedDecodes > 0 {
		x.Fault("failed-decode")
	}
	if len(owned) > 0 {
		x.Fault("scribble")
	}
	if dyn {
		x.Probe("dynamicpb-scenarios", 1)
	}
	x.Key(sim.HashStr(histShape))
}

func c15Compare(M, fresh proto.Message, owned [][]byte, what string) sim.OpResult {
	cmp := func(when string) string {
		if !proto.Equal(M, fresh) {
			return fmt.Sprintf("state-survived: %s: result is not Equal to the fresh message (%s)", what, when)
		}
		bm, em := detBytes(M)
		bf, ef := detBytes(fresh)
		if (em == nil) != (ef == nil) || !bytes.Equal(bm, bf) {
			return fmt.Sprintf("state-survived: %s: deterministic bytes differ from the fresh message's (%s)", what, when)
		}
		hm, hf := newHasher(), newHasher()
		presenceWalk(M.ProtoReflect(), 3, hm)
		presenceWalk(fresh.ProtoReflect(), 3, hf)
		if hm.h != hf.h {
			return fmt.Sprintf("state-survived: %s: Has/WhichOneof/GetUnknown/extension walk differs from the fresh message's (%s)", what, when)
		}
		return ""
	}
	// compare lazily first? No: scribble first, so that retained lazy buffers of
	// the earlier state show; then compare; then compare once more.
	for _, b := range owned {
		for j := range b {
			b[j] = ^b[j]
		}
	}
	if msg := cmp("after overwriting every buffer the message was previously decoded from"); msg != "" {
		return sim.OpResult{Bad: msg}
	}
	if msg := cmp("second comparison"); msg != "" {
		return sim.OpResult{Bad: msg}
	}
	return sim.OpResult{}
}
