package work

import (
	"bufio"
	"errors"
	"fmt"
	"io"
	"sync"
	"unsafe"

	"google.golang.org/protobuf/encoding/protodelim"
	"google.golang.org/protobuf/encoding/protowire"
	"google.golang.org/protobuf/internal/simcore"
	"google.golang.org/protobuf/proto"
	"google.golang.org/protobuf/reflect/protoreflect"
	"google.golang.org/protobuf/zverifsim/gen"
	"google.golang.org/protobuf/zverifsim/scn"
	"google.golang.org/protobuf/zverifsim/sim"
)

// C27 — size-delimited streams frame messages exactly.
type c27 struct{}

func init() { sim.Register(c27{}) }

func (c27) ID() string { return "C27" }

var c27Types = []string{gen.TOpen2, gen.TOpen3, gen.TLazyNode, gen.TOpaque, gen.TEditions}

var errInjectedRead = errors.New("pbsim: injected reader error")
var errInjectedWrite = errors.New("pbsim: injected writer error")

const (
	c27Cuts = iota
	c27ReadErr
	c27WriteFault
	c27Pipe
)

func (c27) Gen(r *sim.Rng, tier string) *scn.Scn {
	s := &scn.Scn{P: map[string]int64{}}
	n := r.Intn(9)
	if r.Chance(1, 3) {
		n = r.Range(1, 3)
	}
	bufsizes := []int{16, 16, 17, 24, 32, 64, 128, 300, 4096, 8192}
	bufsize := bufsizes[r.Intn(len(bufsizes))]
	if r.Chance(1, 4) {
		bufsize = r.Range(16, 200)
	}
	s.P["bufsize"] = int64(bufsize)
	for i := 0; i < n; i++ {
		o := scn.Object{Type: c27Types[r.Intn(len(c27Types))], Seed: r.U64()}
		switch r.Intn(10) {
		case 0:
			o.Size = -1 // empty message: frame of size 0
		case 1:
			o.Size = r.Range(120, 132) // around the 1-byte / 2-byte size varint boundary
		case 2:
			o.Size = r.Range(max(0, bufsize-24), bufsize+8) // around the bufio buffer size
			if o.Size > 600 && n > 2 {
				o.Size = r.Range(0, 40)
			}
		case 3:
			o.Size = r.Range(0, 3)
		default:
			o.Size = r.Range(0, 40)
		}
		s.Objects = append(s.Objects, o)
	}
	if r.Chance(1, 12) {
		// hostile header: a size far beyond any limit, followed by a few bytes
		// (Note selects a size beyond what an int holds: 2^63, 2^63+k, 2^64-1, or a mid-range 2^40 / 2^32+3)
		s.Objects = append(s.Objects, scn.Object{Type: "raw-header", Size: 5<<20 + r.Intn(1000), Seed: r.U64(), Note: []string{"", "", "2^63", "2^63+k", "2^64-1", "2^40", "2^32+3"}[r.Intn(7)]})
	}
	s.P["reader"] = int64(r.Intn(4)) // 0 bufio, 1 byte-at-a-time non-bufio, 2 bufio over eof-with-data source, 3 non-bufio chunked
	s.P["maxchunk"] = int64([]int{1, 2, 3, 7, 64, 10000}[r.Intn(6)])
	s.P["chunkseed"] = int64(r.U64() >> 1)
	if r.Chance(1, 3) {
		s.P["reuse_target"] = 1 // the caller decodes every frame of a type into the same message value
	}
	if r.Chance(1, 3) {
		// the writer fills one message value per type again and again: every frame after the first of a
		// type is written from the value that was written (and sized) before, changed in place
		s.P["writer_reuse"] = int64(1 + r.Intn(2)) // 2: the value is also passed to proto.Size before each change
	}
	s.P["maxsize_mode"] = int64(r.Intn(6)) // 0 default, 1 unlimited, 2 size-1, 3 size, 4 size+1, 5 default
	if n > 0 {
		s.P["maxsize_frame"] = int64(r.Intn(n))
	}
	mode := c27Cuts
	switch r.Intn(10) {
	case 0, 1:
		mode = c27ReadErr
	case 2:
		mode = c27WriteFault
		s.P["short"] = int64(r.Intn(2))
	case 3, 4:
		mode = c27Pipe
	}
	s.P["mode"] = int64(mode)
	if (mode == c27Cuts || mode == c27ReadErr) && n > 0 && r.Chance(1, 3) {
		// One frame whose body does not parse (or parses to something else), the framing left intact:
		// a stored byte flipped after the stream was written, or a message lacking a required field
		// written with AllowPartial and read without. The stream must stay framed: the call for that
		// frame fails (or yields what the damaged body decodes to), consumes the frame, and the frames
		// after it are read back as written.
		s.P["bad_frame"] = int64(1 + r.Intn(n))
		s.P["bad_kind"] = int64(r.Intn(4)) // 0 first body byte := 0x07, 1 xor a byte, 2 last byte |= 0x80, 3 partial message
		s.P["bad_pos"] = int64(r.Intn(1 << 20))
		s.P["bad_xor"] = int64(1 + r.Intn(255))
	}
	if mode == c27Pipe {
		var wops, rops []scn.Op
		for i := range s.Objects {
			wops = append(wops, scn.Op{Op: "write", Obj: i})
		}
		wops = append(wops, scn.Op{Op: "close"})
		for i := 0; i <= len(s.Objects); i++ {
			rops = append(rops, scn.Op{Op: "read"})
		}
		s.P["pipecap"] = int64([]int{1, 2, 5, 16, 64, 100000}[r.Intn(6)])
		s.P["crash_permille"] = int64(r.Intn(1001))
		ph := scn.Phase{Clients: [][]scn.Op{wops, rops}}
		ph.Sched = scn.Sched{Kind: "random", Stay: []uint32{512, 820, 973}[r.Intn(3)], Seed: r.U64()}
		s.Phases = []scn.Phase{ph}
	}
	return s
}

// c27Beyond stands for the end offset of a frame whose announced size lies beyond any stream.
const c27Beyond = 1 << 40

type c27Frame struct {
	msg        proto.Message // nil for raw-header
	wmsg       proto.Message // the value handed to MarshalTo, if it is not msg itself (a recycled value with the same content)
	typ        string
	start, hdr int
	end        int
	size       uint64
	bad        bool // the body does not parse: the call for this frame must fail and consume the frame
	partial    bool // written with AllowPartial
}

func c27Build(s *scn.Scn) ([]c27Frame, []byte) {
	var frames []c27Frame
	var stream []byte
	for _, o := range s.Objects {
		f := c27Frame{typ: o.Type, start: len(stream)}
		if o.Type == "raw-header" {
			f.size = uint64(o.Size)
			switch o.Note {
			case "2^63":
				f.size = 1 << 63
			case "2^63+k":
				f.size = 1<<63 + uint64(o.Seed%1000)
			case "2^64-1":
				f.size = 1<<64 - 1
			case "2^40":
				f.size = 1 << 40
			case "2^32+3":
				f.size = 1<<32 + 3
			}
			stream = protowire.AppendVarint(stream, f.size)
			f.hdr = len(stream) - f.start
			stream = append(stream, sim.NewRng(o.Seed).Bytes(5)...)
			f.end = c27Beyond // beyond the stream, whatever the size
			frames = append(frames, f)
			break // nothing can follow
		}
		m := gen.NewMsg(o.Type)
		if s.P["bad_frame"] == int64(len(frames)+1) && s.P["bad_kind"] == 3 {
			// a message that lacks a required field one level down, with some content so that the frame is not empty
			m = gen.NewMsg("goproto.proto.test.TestRequiredForeign")
			mr := m.ProtoReflect()
			fds := mr.Descriptor().Fields()
			mr.Mutable(fds.ByName("optional_message"))
			if s.P["bad_pos"]%2 == 0 {
				mr.Mutable(fds.ByName("repeated_message")).List().AppendMutable()
			}
			f.typ = "goproto.proto.test.TestRequiredForeign"
			f.msg, f.bad, f.partial = m, true, true
			frames = append(frames, f)
			continue
		}
		if o.Size >= 0 {
			r := sim.NewRng(o.Seed)
			if o.Size <= 40 {
				op := gen.DefaultOpts()
				op.MaxDepth = 2
				op.FieldPerm = 60
				op.Extensions = false
				gen.Populate(r, m.ProtoReflect(), op)
			}
			fd := bytesField(m)
			if fd != nil && o.Size > 0 {
				m.ProtoReflect().Set(fd, protoValueBytes(r.Bytes(o.Size)))
			}
		}
		f.msg = m
		frames = append(frames, f)
	}
	return frames, stream
}

// chunkSrc is the simulated byte source under the reader.
type chunkSrc struct {
	data        []byte
	pos         int
	rng         *sim.Rng
	maxChunk    int
	eofWithData bool
	errAt       int // -1: none
	errFired    bool
	shortReads  int64
	eofData     int64
}

func (c *chunkSrc) Read(p []byte) (int, error) {
	if len(p) == 0 {
		return 0, nil
	}
	if c.errAt >= 0 && !c.errFired && c.pos >= c.errAt {
		c.errFired = true
		return 0, errInjectedRead
	}
	if c.pos >= len(c.data) {
		return 0, io.EOF
	}
	n := len(c.data) - c.pos
	if n > len(p) {
		n = len(p)
	}
	if k := 1 + c.rng.Intn(c.maxChunk); k < n {
		n = k
		c.shortReads++
	}
	if c.errAt > c.pos && c.errAt-c.pos < n {
		n = c.errAt - c.pos
	}
	copy(p, c.data[c.pos:c.pos+n])
	c.pos += n
	if c.pos == len(c.data) && c.eofWithData && !(c.errAt >= 0 && !c.errFired) {
		c.eofData++
		return n, io.EOF
	}
	return n, nil
}

// plainReader is a conforming protodelim.Reader that is not a *bufio.Reader.
type plainReader struct {
	src      io.Reader
	oneByOne bool
	pendErr  error
}

func (p *plainReader) Read(b []byte) (int, error) {
	if p.pendErr != nil {
		err := p.pendErr
		p.pendErr = nil
		return 0, err
	}
	if p.oneByOne && len(b) > 1 {
		b = b[:1]
	}
	return p.src.Read(b)
}

func (p *plainReader) ReadByte() (byte, error) {
	var b [1]byte
	for {
		n, err := p.Read(b[:])
		if n == 1 {
			// an error delivered together with data (n>0, io.EOF) belongs to the next call
			if err != nil {
				p.pendErr = err
			}
			return b[0], nil
		}
		if err != nil {
			return 0, err
		}
	}
}

type c27Reader struct {
	r        protodelim.Reader
	br       *bufio.Reader
	src      *chunkSrc
	consumed func() int
}

func c27NewReader(s *scn.Scn, data []byte, errAt int) *c27Reader {
	src := &chunkSrc{data: data, rng: sim.NewRng(uint64(s.P["chunkseed"])), maxChunk: int(s.P["maxchunk"]), errAt: errAt}
	if src.maxChunk < 1 {
		src.maxChunk = 1
	}
	rd := &c27Reader{src: src}
	switch s.P["reader"] {
	case 0, 2:
		src.eofWithData = s.P["reader"] == 2
		br := bufio.NewReaderSize(src, int(s.P["bufsize"]))
		rd.r, rd.br = br, br
		rd.consumed = func() int { return src.pos - br.Buffered() }
	default:
		pr := &plainReader{src: src, oneByOne: s.P["reader"] == 1}
		rd.r = pr
		rd.consumed = func() int { return src.pos }
	}
	return rd
}

func c27MaxSize(s *scn.Scn, frames []c27Frame) (opt int64, eff uint64) {
	mode := s.P["maxsize_mode"]
	j := int(s.P["maxsize_frame"])
	var sz int64
	if j < len(frames) {
		if frames[j].size > 16<<20 {
			// an announced size in the giga- or exabytes: a limit derived from it (or no limit at all) would
			// make the reader allocate that much, which is what the caller asked for and not this check's business
			if mode == 1 && frames[j].size <= 1<<63-1 {
				return 0, 4 << 20
			}
			if mode >= 2 {
				return 0, 4 << 20
			}
		}
		sz = int64(frames[j].size)
	}
	for _, f := range frames {
		if mode == 1 && f.msg == nil && f.size > 16<<20 && f.size <= 1<<63-1 {
			return 0, 4 << 20 // (see above: no unlimited reads of terabyte frames)
		}
	}
	switch mode {
	case 1:
		return -1, 1<<63 - 1
	case 2:
		if sz-1 >= 1 {
			return sz - 1, uint64(sz - 1)
		}
	case 3:
		if sz >= 1 {
			return sz, uint64(sz)
		}
	case 4:
		return sz + 1, uint64(sz + 1)
	}
	return 0, 4 << 20
}

func (c27) Run(s *scn.Scn, x *sim.Exec) {
	frames, stream := c27Build(s)
	// Write the stream with the real MarshalTo into a plain buffer and take
	// frame geometry from an independent computation (protowire + proto.Size).
	var out sliceWriter
	live := map[string]proto.Message{}
	for i := range frames {
		f := &frames[i]
		if f.msg != nil && !f.partial && s.P["writer_reuse"] > 0 {
			if obj, ok := live[f.typ]; ok {
				// change the value written before into this frame's content, in place, the way a caller
				// that recycles one message value does: field by field, no Reset
				if s.P["writer_reuse"] == 2 {
					proto.Size(obj)
				}
				or, nr := obj.ProtoReflect(), f.msg.ProtoReflect()
				fds := or.Descriptor().Fields()
				for k := 0; k < fds.Len(); k++ {
					fd := fds.Get(k)
					switch {
					case !nr.Has(fd):
						or.Clear(fd)
					case fd.IsList() || fd.IsMap() || fd.Message() != nil:
						or.Clear(fd)
						tmp := proto.Clone(f.msg).ProtoReflect()
						or.Set(fd, tmp.Get(fd))
					case fd.Kind() == protoreflect.BytesKind:
						or.Set(fd, protoreflect.ValueOfBytes(append([]byte(nil), nr.Get(fd).Bytes()...)))
					default:
						or.Set(fd, nr.Get(fd))
					}
				}
				or.SetUnknown(append([]byte(nil), nr.GetUnknown()...))
				if proto.Equal(obj, f.msg) {
					f.msg = proto.Clone(f.msg) // what the frame must read back as, kept apart from the recycled value
					x.Probe("frames-written-from-a-recycled-value", 1)
					// the recycled value itself is what goes to MarshalTo
					f.wmsg = obj
				}
			} else {
				live[f.typ] = f.msg
				f.wmsg = f.msg
				f.msg = proto.Clone(f.msg)
			}
		}
		if f.msg == nil {
			ns := len(out.b)
			out.b = append(out.b, stream[f.start:]...)
			f.start = ns
			f.end = c27Beyond
			continue
		}
		f.start = len(out.b)
		var n int
		var err error
		wm := f.msg
		if f.wmsg != nil {
			wm = f.wmsg
		}
		if f.partial {
			n, err = protodelim.MarshalOptions{MarshalOptions: proto.MarshalOptions{AllowPartial: true}}.MarshalTo(&out, wm)
		} else {
			n, err = protodelim.MarshalTo(&out, wm)
		}
		if err != nil {
			x.Fail("marshalto-error", "MarshalTo into a plain buffer failed: %v", err)
			return
		}
		f.end = len(out.b)
		if n != f.end-f.start {
			x.Fail("marshalto-count", "MarshalTo returned n=%d but wrote %d bytes", n, f.end-f.start)
			return
		}
		body := proto.Size(f.msg)
		f.size = uint64(body)
		f.hdr = protowire.SizeVarint(uint64(body))
		if f.hdr+body != f.end-f.start {
			x.Fail("frame-geometry", "frame %d: size varint %d + body %d != %d bytes written", i, f.hdr, body, f.end-f.start)
			return
		}
		if v, k := protowire.ConsumeVarint(out.b[f.start:]); k != f.hdr || v != f.size {
			x.Fail("frame-geometry", "frame %d does not start with varint(%d)", i, body)
			return
		}
		if f.size == 0 {
			x.Probe("empty-frame", 1)
		}
		if f.hdr >= 2 {
			x.Probe("two-byte-size", 1)
		}
	}
	stream = out.b
	if bf := int(s.P["bad_frame"]); bf > 0 && bf <= len(frames) && s.P["bad_kind"] != 3 {
		f := &frames[bf-1]
		if f.msg != nil && f.size > 0 {
			body := stream[f.start+f.hdr : f.end]
			switch s.P["bad_kind"] {
			case 0:
				body[0] = 0x07 // field number 0, wire type 7
			case 1:
				body[int(s.P["bad_pos"])%len(body)] ^= byte(s.P["bad_xor"])
			case 2:
				body[len(body)-1] |= 0x80
			}
			x.Fault("flipped-stored-byte")
			// what the damaged body decodes to, by the plain decoder with the same (default) options
			m2 := f.msg.ProtoReflect().New().Interface()
			if err := proto.Unmarshal(body, m2); err != nil {
				f.bad = true
			} else {
				f.msg = m2
				x.Probe("flipped-byte-still-parses", 1)
			}
		}
	}
	switch s.P["mode"] {
	case c27Cuts:
		for cut := 0; cut <= len(stream); cut++ {
			if cut < len(stream) {
				x.Fault("torn-tail")
			}
			rd := c27NewReader(s, stream[:cut:cut], -1)
			c27ReadAll(s, x, frames, rd, cut, -1)
			x.Probe("short-read-firings", rd.src.shortReads)
			if rd.src.shortReads > 0 {
				x.Fault("short-read")
			}
			if rd.src.eofData > 0 {
				x.Fault("eof-with-data")
			}
			x.Out.Evals++
			if x.Failed() {
				s.Faults = []scn.Fault{{Kind: "torn-tail", At: int64(cut)}}
				return
			}
		}
	case c27ReadErr:
		step := 1
		if len(stream) > 3000 {
			step = len(stream) / 1500
		}
		for e := 0; e <= len(stream); e += step {
			rd := c27NewReader(s, stream, e)
			c27ReadAll(s, x, frames, rd, len(stream), e)
			if rd.src.errFired {
				x.Fault("read-error")
			}
			x.Out.Evals++
			if x.Failed() {
				s.Faults = []scn.Fault{{Kind: "read-error", At: int64(e)}}
				return
			}
		}
	case c27WriteFault:
		c27WriteFaults(s, x, frames, stream)
	case c27Pipe:
		c27PipeRun(s, x, frames, stream)
	}
	// distinct non-trivial key
	var shape []byte
	nonEmpty := false
	for _, f := range frames {
		shape = protowire.AppendVarint(shape, f.size)
		if f.size > 0 {
			nonEmpty = true
		}
	}
	if nonEmpty {
		_, eff := c27MaxSize(s, frames)
		cls := uint64(0)
		for _, f := range frames {
			if f.size > eff {
				cls = 1
			}
		}
		k := sim.Hash64(shape)
		k = sim.Mix(k, uint64(s.P["reader"])<<40|uint64(s.P["bufsize"])<<20|uint64(s.P["maxchunk"]))
		k = sim.Mix(k, uint64(s.P["mode"])<<8|cls)
		x.Key(k)
	}
}

type sliceWriter struct{ b []byte }

func (w *sliceWriter) Write(p []byte) (int, error) { w.b = append(w.b, p...); return len(p), nil }

// c27ReadAll reads frames from rd until the stream (cut at `cut`) is
// exhausted and checks every result against the list-of-frames model.
// errAt >= 0: one transient reader error is injected at that offset.
func c27ReadAll(s *scn.Scn, x *sim.Exec, frames []c27Frame, rd *c27Reader, cut, errAt int) {
	optMax, effMax := c27MaxSize(s, frames)
	opts := protodelim.UnmarshalOptions{MaxSize: optMax}
	var got []proto.Message
	var gotIdx []int
	var reuse map[string]proto.Message
	defer func() {
		// C14, protodelim clause: messages returned earlier must not have
		// changed while later frames went through the same reader buffer.
		for k, m := range got {
			i := gotIdx[k]
			if !proto.Equal(m, frames[i].msg) {
				x.Fail("earlier-message-changed", "message %d returned by UnmarshalFrom changed after later reads on the same reader (aliases the reader's buffer?)", i)
			}
		}
	}()
	for i := 0; ; i++ {
		typ := gen.TOpen2
		if i < len(frames) && frames[i].msg != nil {
			typ = frames[i].typ
		} else if len(frames) > 0 && frames[0].msg != nil {
			typ = frames[0].typ
		}
		m := gen.NewMsg(typ)
		if s.P["reuse_target"] == 1 {
			// a caller may decode frame after frame into one message value: UnmarshalFrom replaces its content
			if reuse == nil {
				reuse = map[string]proto.Message{}
			}
			if t, ok := reuse[typ]; ok {
				m = t
			} else {
				reuse[typ] = m
			}
		}
		var err error
		if p := sim.Protect(func() { err = opts.UnmarshalFrom(rd.r, m) }); p != "" {
			x.Fail("panic:UnmarshalFrom", "UnmarshalFrom panicked at frame %d, cut %d: %s", i, cut, p)
			return
		}
		where := fmt.Sprintf("frame %d of %d, cut %d of stream, reader kind %d bufsize %d maxchunk %d MaxSize %d errAt %d", i, len(frames), cut, s.P["reader"], s.P["bufsize"], s.P["maxchunk"], optMax, errAt)
		if errAt >= 0 && err != nil && errors.Is(err, errInjectedRead) {
			// the faulted call may return the injected error, but only if it needed the byte at errAt
			lo, hi := cut, cut
			if i < len(frames) {
				lo, hi = frames[i].start, frames[i].end
			}
			if !(lo <= errAt && (errAt < hi || i >= len(frames))) {
				x.Fail("read-error-misattributed", "%s: injected error surfaced in a call that did not need byte %d (frame spans %d..%d)", where, errAt, lo, hi)
			}
			x.Probe("read-error-returned", 1)
			return // stream position is unspecified after an error
		}
		if i < len(frames) && frames[i].end <= cut {
			f := &frames[i]
			if f.size > effMax {
				c27ExpectTooLarge(x, err, f, effMax, rd, where)
				return
			}
			if f.bad {
				// complete frame, unparseable body: an error (not end-of-stream), and the frame is consumed
				x.Probe("unparseable-frame", 1)
				if err == nil {
					x.Fail("bad-body-accepted", "%s: the frame's body does not parse (proto.Unmarshal rejects it) but UnmarshalFrom returned nil", where)
					return
				}
				if err == io.EOF {
					x.Fail("bad-body-eof", "%s: a complete frame with an unparseable body returned io.EOF", where)
					return
				}
				if c := rd.consumed(); c != f.end {
					x.Fail("bad-body-not-consumed", "%s: after the failed call %d bytes are consumed, the frame ends at %d: the stream is no longer framed", where, c, f.end)
					return
				}
				continue
			}
			if err != nil {
				x.Fail("complete-frame-rejected", "%s: complete frame returned error %v", where, err)
				return
			}
			if !proto.Equal(m, f.msg) {
				x.Fail("wrong-message", "%s: message read back differs from the message written", where)
				return
			}
			if c := rd.consumed(); c != f.end {
				x.Fail("overread", "%s: after the call %d bytes are consumed, frame ends at %d", where, c, f.end)
				return
			}
			if rd.br != nil {
				if int(f.size) <= rd.br.Size() {
					x.Probe("peek-fast-path", 1)
				} else {
					x.Probe("peek-fallback-readfull", 1)
				}
			} else {
				x.Probe("non-bufio-reader", 1)
			}
			if reuse != nil {
				m = proto.Clone(m) // the target will be overwritten by the next read
			}
			got = append(got, m)
			gotIdx = append(gotIdx, i)
			continue
		}
		// frame i is absent or incomplete
		if i >= len(frames) || frames[i].start >= cut {
			if err != io.EOF {
				x.Fail("boundary-not-eof", "%s: stream ends on a message boundary but UnmarshalFrom returned %v, want io.EOF itself", where, err)
			}
			x.Probe("cut-on-boundary", 1)
			return
		}
		f := &frames[i]
		if cut >= f.start+f.hdr && f.size > effMax {
			c27ExpectTooLarge(x, err, f, effMax, rd, where)
			return
		}
		if cut < f.start+f.hdr {
			x.Probe("cut-inside-size-varint", 1)
		} else {
			x.Probe("cut-inside-body", 1)
		}
		if err == nil {
			x.Fail("truncated-frame-accepted", "%s: truncated frame was accepted", where)
		} else if err == io.EOF || errors.Is(err, io.EOF) {
			x.Fail("truncated-frame-eof", "%s: stream truncated inside a frame but UnmarshalFrom returned io.EOF", where)
		} else if !errors.Is(err, io.ErrUnexpectedEOF) {
			x.Fail("truncated-frame-wrong-error", "%s: stream truncated inside a frame: got %v, want io.ErrUnexpectedEOF", where, err)
		}
		return
	}
}

func c27ExpectTooLarge(x *sim.Exec, err error, f *c27Frame, effMax uint64, rd *c27Reader, where string) {
	x.Probe("size-too-large", 1)
	var tl *protodelim.SizeTooLargeError
	if err == nil || !errors.As(err, &tl) {
		x.Fail("size-limit-not-enforced", "%s: frame size %d exceeds MaxSize %d but got error %v", where, f.size, effMax, err)
		return
	}
	if tl.Size != f.size || tl.MaxSize != effMax {
		x.Fail("size-too-large-fields", "%s: SizeTooLargeError{Size:%d MaxSize:%d}, want {%d %d}", where, tl.Size, tl.MaxSize, f.size, effMax)
		return
	}
	if c := rd.consumed(); c != f.start+f.hdr {
		x.Fail("size-too-large-consumed-body", "%s: after SizeTooLargeError %d bytes are consumed, size varint ends at %d", where, c, f.start+f.hdr)
	}
}

// faultyWriter accepts limit bytes and then fails.
type faultyWriter struct {
	b     []byte
	limit int
	short bool
	fired bool
}

func (w *faultyWriter) Write(p []byte) (int, error) {
	room := w.limit - len(w.b)
	if len(p) <= room {
		w.b = append(w.b, p...)
		return len(p), nil
	}
	w.fired = true
	if w.short && room > 0 {
		w.b = append(w.b, p[:room]...)
		return room, errInjectedWrite
	}
	return 0, errInjectedWrite
}

func c27WriteFaults(s *scn.Scn, x *sim.Exec, frames []c27Frame, stream []byte) {
	short := s.P["short"] == 1
	for limit := 0; limit <= len(stream); limit++ {
		w := &faultyWriter{limit: limit, short: short}
		for i := range frames {
			f := &frames[i]
			if f.msg == nil {
				break
			}
			before := len(w.b)
			n, err := protodelim.MarshalTo(w, f.msg)
			accepted := len(w.b) - before
			if n != accepted {
				x.Fail("marshalto-count", "MarshalTo frame %d with writer limit %d: returned n=%d, writer accepted %d", i, limit, n, accepted)
				return
			}
			if w.fired {
				if err != errInjectedWrite {
					x.Fail("marshalto-error-changed", "MarshalTo frame %d with writer limit %d: writer failed with the injected error, MarshalTo returned %v", i, limit, err)
					return
				}
				if short {
					x.Fault("short-write")
				} else {
					x.Fault("write-error")
				}
				break
			}
			if err != nil {
				x.Fail("marshalto-error", "MarshalTo frame %d: unexpected error %v", i, err)
				return
			}
		}
		// (Bytes are not compared with the fault-free stream: default Marshal
		// may order map entries differently on every call. Lengths are a
		// function of the content, which is all the frame model needs.)
		if len(w.b) > len(stream) {
			x.Fail("torn-write-too-long", "failing writer (limit %d) accepted %d bytes, the fault-free stream has %d", limit, len(w.b), len(stream))
			return
		}
		// and reads back per the truncation rules
		rd := c27NewReader(s, w.b, -1)
		c27ReadAll(s, x, frames, rd, len(w.b), -1)
		x.Out.Evals++
		if x.Failed() {
			s.Faults = []scn.Fault{{Kind: "write-fault", At: int64(limit)}}
			return
		}
	}
}

// ---- two-client pipe ----

type simPipe struct {
	mu      sync.Mutex // real mutex: the pipe is harness code, data flows writer -> reader
	buf     []byte
	cap     int
	closed  bool
	crashAt int // total bytes after which the writer crashes (-1: never)
	written int
}

func (p *simPipe) addr() uintptr { return uintptr(unsafe.Pointer(p)) }

func (p *simPipe) Write(b []byte) (int, error) {
	n := 0
	for len(b) > 0 {
		simcore.Yield(simcore.KUser, p.addr())
		p.mu.Lock()
		if p.closed {
			p.mu.Unlock()
			return n, errInjectedWrite
		}
		if p.crashAt >= 0 && p.written >= p.crashAt {
			p.closed = true
			p.mu.Unlock()
			simcore.Wake(p.addr())
			return n, errInjectedWrite
		}
		room := p.cap - len(p.buf)
		if room <= 0 {
			p.mu.Unlock()
			simcore.Block(p.addr())
			continue
		}
		k := len(b)
		if k > room {
			k = room
		}
		if p.crashAt >= 0 && p.written+k > p.crashAt {
			k = p.crashAt - p.written
		}
		p.buf = append(p.buf, b[:k]...)
		p.written += k
		p.mu.Unlock()
		simcore.Wake(p.addr())
		b = b[k:]
		n += k
	}
	return n, nil
}

func (p *simPipe) Close() {
	p.mu.Lock()
	p.closed = true
	p.mu.Unlock()
	simcore.Wake(p.addr())
}

func (p *simPipe) Read(b []byte) (int, error) {
	for {
		simcore.Yield(simcore.KUser, p.addr())
		p.mu.Lock()
		if len(p.buf) > 0 {
			n := copy(b, p.buf)
			p.buf = p.buf[n:]
			p.mu.Unlock()
			simcore.Wake(p.addr())
			return n, nil
		}
		if p.closed {
			p.mu.Unlock()
			return 0, io.EOF
		}
		p.mu.Unlock()
		simcore.Block(p.addr())
	}
}

func c27PipeRun(s *scn.Scn, x *sim.Exec, frames []c27Frame, stream []byte) {
	if len(s.Phases) == 0 {
		return
	}
	crash := -1
	if pm := s.P["crash_permille"]; pm < 800 && len(stream) > 0 {
		crash = int(int64(len(stream)) * pm / 800)
	}
	pipe := &simPipe{cap: int(s.P["pipecap"]), crashAt: crash}
	if pipe.cap < 1 {
		pipe.cap = 1
	}
	optMax, _ := c27MaxSize(s, frames)
	opts := protodelim.UnmarshalOptions{MaxSize: optMax}
	br := bufio.NewReaderSize(pipe, int(s.P["bufsize"]))
	type rres struct {
		m   proto.Message
		err error
	}
	var reads []rres // private to the reader client
	readerStopped := false
	x.RunPhase(0, func(client, opi int, op *scn.Op) sim.OpResult {
		switch op.Op {
		case "write":
			if op.Obj >= len(frames) {
				return sim.OpResult{}
			}
			f := &frames[op.Obj]
			if f.msg == nil {
				pipe.Write(stream[f.start:])
				return sim.OpResult{}
			}
			n, err := protodelim.MarshalTo(pipe, f.msg)
			d := uint64(n)
			if err != nil {
				d |= 1 << 40
			}
			return sim.OpResult{Digest: d}
		case "close":
			pipe.Close()
		case "read":
			if readerStopped {
				return sim.OpResult{}
			}
			i := len(reads)
			typ := gen.TOpen2
			if i < len(frames) && frames[i].msg != nil {
				typ = frames[i].typ
			} else if len(frames) > 0 && frames[0].msg != nil {
				typ = frames[0].typ
			}
			m := gen.NewMsg(typ)
			err := opts.UnmarshalFrom(br, m)
			reads = append(reads, rres{m, err})
			if err != nil {
				readerStopped = true
				pipe.Close() // the reader gives up: later writes fail, like a closed pipe
				return sim.OpResult{Digest: 1}
			}
			return sim.OpResult{Digest: 2}
		}
		return sim.OpResult{}
	})
	if x.Failed() {
		return
	}
	x.Out.Evals++
	// oracle over the history: what reached the pipe is stream[:written]
	cut := pipe.written
	if crash >= 0 && cut == crash && cut < len(stream) {
		x.Probe("pipe-writer-crash", 1)
		x.Fault("torn-tail")
	}
	_, effMax := c27MaxSize(s, frames)
	for i, rr := range reads {
		where := fmt.Sprintf("pipe mode, read %d, writer stopped after %d of %d bytes", i, cut, len(stream))
		if i < len(frames) && frames[i].end <= cut {
			if frames[i].size > effMax {
				var tl *protodelim.SizeTooLargeError
				if !errors.As(rr.err, &tl) {
					x.Fail("size-limit-not-enforced", "%s: want SizeTooLargeError, got %v", where, rr.err)
				}
				return
			}
			if rr.err != nil {
				x.Fail("complete-frame-rejected", "%s: complete frame returned error %v", where, rr.err)
				return
			}
			if !proto.Equal(rr.m, frames[i].msg) {
				x.Fail("wrong-message", "%s: message differs from the one written", where)
				return
			}
			continue
		}
		if i >= len(frames) || frames[i].start >= cut {
			if rr.err != io.EOF {
				x.Fail("boundary-not-eof", "%s: want io.EOF, got %v", where, rr.err)
			}
			return
		}
		f := &frames[i]
		if cut >= f.start+f.hdr && f.size > effMax {
			var tl *protodelim.SizeTooLargeError
			if !errors.As(rr.err, &tl) {
				x.Fail("size-limit-not-enforced", "%s: want SizeTooLargeError, got %v", where, rr.err)
			}
			return
		}
		if rr.err == nil || errors.Is(rr.err, io.EOF) || !errors.Is(rr.err, io.ErrUnexpectedEOF) {
			x.Fail("truncated-frame-wrong-error", "%s: want io.ErrUnexpectedEOF, got %v", where, rr.err)
		}
		return
	}
}
