package work

import (
	"bytes"
	"fmt"
	"strings"

	"google.golang.org/protobuf/encoding/protojson"
	"google.golang.org/protobuf/encoding/prototext"
	"google.golang.org/protobuf/proto"
	"google.golang.org/protobuf/reflect/protoreflect"
	"google.golang.org/protobuf/zverifsim/gen"
	"google.golang.org/protobuf/zverifsim/scn"
	"google.golang.org/protobuf/zverifsim/sim"
)

// C18 — concurrent readers of a lazily decoded message.
type c18 struct{}

func init() { sim.Register(c18{}) }

func (c18) ID() string { return "C18" }

var c18Ops = []string{"get-chain", "get-chain", "get-chain", "has-chain", "reflect-get", "reflect-range", "size", "marshal", "marshal", "marshal-det", "marshal-append", "equal", "clone", "checkinit", "json", "text", "merge-from", "size-det", "unknown"}

// c18Roots: the lazily decodable types of this build (hybrid types become
// lazy-capable with -tags protoopaque), plus an extension-bearing message
// (its extension values are decoded lazily with -tags protolegacy; without the
// tag it is a plain shared message, still a legal target for concurrent readers).
func c18Roots() []string {
	roots := append([]string(nil), lazyRoots...)
	for _, t := range []string{gen.THybNode, gen.THybrid, gen.TMixedHyb} {
		if lazyCapable(t) {
			roots = append(roots, t)
		}
	}
	return append(roots, gen.TExt2)
}

func randSched(r *sim.Rng) scn.Sched {
	switch r.Intn(4) {
	case 0:
		return scn.Sched{Kind: "pct", Depth: r.Range(1, 4), Seed: r.U64()}
	default:
		return scn.Sched{Kind: "random", Stay: []uint32{512, 820, 973, 1014}[r.Intn(4)], SiteBias: r.Bool(), Seed: r.U64()}
	}
}

func (c18) Gen(r *sim.Rng, tier string) *scn.Scn {
	s := &scn.Scn{P: map[string]int64{}}
	roots := c18Roots()
	typ := roots[r.Intn(len(roots))]
	intensity := 0
	switch r.Intn(5) {
	case 0, 1:
		intensity = []int{30, 100, 250}[r.Intn(3)]
	}
	depth := r.Range(2, 4)
	wire, st := buildLazyWire(r.Fork(), typ, depth, r.Range(1, 3), intensity)
	note := ""
	if st.Total() > 0 {
		note = fmt.Sprintf("denormalised: %+v", st)
	}
	s.Objects = []scn.Object{{Type: typ, Mode: "lazy", Wire: wire, Depth: depth, Note: note}}
	s.P["denorm"] = int64(st.Total())
	s.P["denorm_lazy"] = int64(st.LazyTouched)
	// paths come from an eager decode of the same bytes
	var paths [][]int32
	if t, err := decodeEager(typ, wire); err == nil {
		paths = msgPaths(t.ProtoReflect(), 5)
	}
	nc := r.Range(2, 4)
	if r.Chance(1, 2) {
		nc = 2
	}
	ph := scn.Phase{Sched: randSched(r)}
	for c := 0; c < nc; c++ {
		n := r.Range(1, 6)
		var ops []scn.Op
		for i := 0; i < n; i++ {
			op := scn.Op{Op: c18Ops[r.Intn(len(c18Ops))]}
			if len(paths) > 0 && r.Chance(4, 5) {
				op.Path = paths[r.Intn(len(paths))]
			}
			op.N = int64(r.Intn(4))
			ops = append(ops, op)
		}
		ph.Clients = append(ph.Clients, ops)
	}
	s.Phases = []scn.Phase{ph}
	return s
}

// c18Client is the private state of one reader client.
type c18Client struct {
	twin proto.Message // eager twin, private
	ptrs []ptrRec
	buf  []byte
}

type c18Res struct {
	digest  uint64
	relaxed bool   // Size / non-deterministic Marshal family
	err     string // error text, if any
	length  int
	equalT  bool
}

// c18Do executes one read-only operation on root and returns its result.
func c18Do(root proto.Message, cl *c18Client, op *scn.Op) c18Res {
	// walk down the path with the route the op prescribes
	target := root
	switch op.Op {
	case "get-chain", "has-chain":
		h := newHasher()
		cur := root
		for i, n := range op.Path {
			fd := fieldByNumber(cur.ProtoReflect(), n)
			if fd == nil {
				break
			}
			if op.Op == "has-chain" {
				if has, ok := callHas(cur, fd); ok {
					if has {
						h.u(1)
					} else {
						h.u(2)
					}
				} else if cur.ProtoReflect().Has(fd) {
					h.u(1)
				} else {
					h.u(2)
				}
			}
			next, ok := callGetter(cur, fd)
			if !ok || isNilMsg(next) {
				h.u(0xdead)
				break
			}
			cl.ptrs = append(cl.ptrs, ptrRec{pathKey(op.Path[:i+1]), msgPtr(next), "getter"})
			cur = next
		}
		h.u(scalarDigest(cur.ProtoReflect()))
		return c18Res{digest: h.h}
	}
	// other ops address the submessage at Path via reflection
	cur := root.ProtoReflect()
	for i, n := range op.Path {
		fd := fieldByNumber(cur, n)
		if fd == nil || !cur.Has(fd) {
			break
		}
		cur = cur.Get(fd).Message()
		cl.ptrs = append(cl.ptrs, ptrRec{pathKey(op.Path[:i+1]), msgPtr(cur.Interface()), "reflect"})
	}
	target = cur.Interface()
	atRoot := target == root
	switch op.Op {
	case "reflect-get":
		return c18Res{digest: scalarDigest(cur)}
	case "reflect-range":
		var pp *[]ptrRec
		if atRoot {
			pp = &cl.ptrs
		}
		return c18Res{digest: deepDigest(cur, int(op.N), nil, pp)}
	case "unknown":
		return c18Res{digest: sim.Hash64(cur.GetUnknown())}
	case "size":
		return c18Res{relaxed: true, length: proto.Size(target)}
	case "size-det":
		return c18Res{digest: uint64(proto.MarshalOptions{Deterministic: true}.Size(target))}
	case "marshal", "marshal-append":
		var b []byte
		var err error
		if op.Op == "marshal" {
			b, err = proto.MarshalOptions{AllowPartial: true}.Marshal(target)
		} else {
			cl.buf = cl.buf[:0]
			b, err = proto.MarshalOptions{AllowPartial: true}.MarshalAppend(cl.buf, target)
		}
		res := c18Res{relaxed: true, length: len(b)}
		if err != nil {
			res.err = err.Error()
			return res
		}
		// decodes to the content of the (private, eager) twin?
		tw := cl.twin.ProtoReflect()
		for _, n := range op.Path {
			fd := fieldByNumber(tw, n)
			if fd == nil || !tw.Has(fd) {
				break
			}
			tw = tw.Get(fd).Message()
		}
		back := tw.New().Interface()
		if uerr := (proto.UnmarshalOptions{AllowPartial: true, NoLazyDecoding: true}).Unmarshal(b, back); uerr != nil {
			res.err = "output does not decode: " + uerr.Error()
			return res
		}
		res.equalT = proto.Equal(back, tw.Interface())
		return res
	case "marshal-det":
		b, err := proto.MarshalOptions{AllowPartial: true, Deterministic: true}.Marshal(target)
		if err != nil {
			return c18Res{err: err.Error()}
		}
		return c18Res{digest: sim.Hash64(b), length: len(b)}
	case "equal":
		if !atRoot {
			return c18Res{digest: scalarDigest(cur)}
		}
		if proto.Equal(root, cl.twin) {
			return c18Res{digest: 1}
		}
		return c18Res{digest: 0}
	case "clone":
		c := proto.Clone(target)
		b, err := proto.MarshalOptions{AllowPartial: true, Deterministic: true}.Marshal(c)
		if err != nil {
			return c18Res{err: err.Error()}
		}
		return c18Res{digest: sim.Hash64(b)}
	case "checkinit":
		if err := proto.CheckInitialized(target); err != nil {
			return c18Res{digest: sim.HashStr(err.Error())}
		}
		return c18Res{digest: 7}
	case "json":
		b, err := protojson.MarshalOptions{AllowPartial: true}.Marshal(target)
		if err != nil {
			return c18Res{err: err.Error()}
		}
		return c18Res{digest: sim.Hash64(b)}
	case "text":
		b, err := prototext.MarshalOptions{AllowPartial: true}.Marshal(target)
		if err != nil {
			return c18Res{err: err.Error()}
		}
		return c18Res{digest: sim.Hash64(b)}
	case "merge-from":
		dst := cur.New().Interface()
		proto.Merge(dst, target)
		b, err := proto.MarshalOptions{AllowPartial: true, Deterministic: true}.Marshal(dst)
		if err != nil {
			return c18Res{err: err.Error()}
		}
		return c18Res{digest: sim.Hash64(b)}
	}
	return c18Res{}
}

func (r c18Res) opResult() sim.OpResult {
	d := r.digest
	if r.relaxed {
		d = 0x5e1a
		if r.err != "" {
			d = 0xe44
		}
	} else if r.err != "" {
		d = sim.HashStr(r.err)
	}
	return sim.OpResult{Digest: d}
}

func (c18) Run(s *scn.Scn, x *sim.Exec) {
	if len(s.Objects) == 0 || len(s.Phases) == 0 {
		return
	}
	o := s.Objects[0]
	M, err := decodeLazy(o.Type, o.Wire)
	if err != nil {
		return // generator produced something undecodable: nothing to check here
	}
	ph := &s.Phases[0]
	nc := len(ph.Clients)
	clients := make([]*c18Client, nc)
	for i := range clients {
		tw, err := decodeEager(o.Type, o.Wire)
		if err != nil {
			x.Fail("lazy-eager-verdict", "lazy decode accepted input that eager decode rejects: %v", err)
			return
		}
		clients[i] = &c18Client{twin: tw}
	}
	results := make([][]c18Res, nc)
	for i := range results {
		results[i] = make([]c18Res, len(ph.Clients[i]))
	}
	x.RunPhase(0, func(client, opi int, op *scn.Op) sim.OpResult {
		r := c18Do(M, clients[client], op)
		results[client][opi] = r
		return r.opResult()
	})
	if x.Failed() {
		return
	}
	denormLazy := s.P["denorm_lazy"] > 0
	// I1 single instance
	inst := map[string]ptrRec{}
	for ci, cl := range clients {
		for _, p := range cl.ptrs {
			if q, ok := inst[p.Path]; ok {
				if q.Ptr != p.Ptr {
					x.Fail("I1:two-instances", "two instances of the submessage at path %s were handed out (one via %s, one via %s to client %d)", p.Path, q.Route, p.Route, ci)
					return
				}
			} else {
				inst[p.Path] = p
			}
		}
	}
	// ... and they are the instances the message holds afterwards
	for path, p := range inst {
		cur := M.ProtoReflect()
		ok := true
		for _, part := range strings.Split(path, "/") {
			var n int32
			fmt.Sscanf(part, "%d", &n)
			fd := fieldByNumber(cur, n)
			if fd == nil || !cur.Has(fd) {
				ok = false
				break
			}
			cur = cur.Get(fd).Message()
		}
		if ok && msgPtr(cur.Interface()) != p.Ptr {
			x.Fail("I1:instance-replaced", "the submessage at path %s handed to a client (via %s) is not the instance the message holds after the run", path, p.Route)
			return
		}
	}
	x.Probe("paths-observed", int64(len(inst)))
	// I2 sequential agreement: the same script on a private lazily decoded replica
	for ci := 0; ci < nc; ci++ {
		R, err := decodeLazy(o.Type, o.Wire)
		if err != nil {
			return
		}
		tw, _ := decodeEager(o.Type, o.Wire)
		rc := &c18Client{twin: tw}
		for oi := range ph.Clients[ci] {
			if oi >= len(results[ci]) {
				break
			}
			op := &ph.Clients[ci][oi]
			var seq c18Res
			if p := sim.Protect(func() { seq = c18Do(R, rc, op) }); p != "" {
				x.Fail("panic:sequential", "sequential execution of %s panicked: %s", op.Op, p)
				return
			}
			got := results[ci][oi]
			where := fmt.Sprintf("client %d op %d (%s path %s)", ci, oi, op.Op, pathKey(op.Path))
			if got.relaxed {
				if got.err != "" {
					if seq.err == got.err {
						continue // fails the same way sequentially: not a concurrency matter
					}
					cls := "I2:marshal-error"
					if strings.Contains(got.err, "size mismatch") {
						cls = "I2:size-mismatch"
						if denormLazy && nc > 1 {
							cls += "/denormalised-lazy/concurrent"
						} else if denormLazy {
							cls += "/denormalised-lazy/single-client"
						} else {
							cls += "/minimal-encoding"
						}
					}
					x.Fail(cls, "%s failed under concurrency (%s) but succeeds sequentially", where, got.err)
					return
				}
				if op.Op != "size" && !got.equalT {
					x.Fail("I2:marshal-wrong-content", "%s: output does not decode to the message content", where)
					return
				}
				if s.P["denorm"] == 0 && got.length != seq.length {
					x.Fail("I2:size-differs", "%s: length %d under concurrency, %d sequentially, on a minimal encoding", where, got.length, seq.length)
					return
				}
				continue
			}
			if got.err != seq.err && strings.Contains(got.err, "size mismatch") && denormLazy && nc > 1 {
				// the same Size-pass / encode-pass window as in the relaxed Marshal family (known finding)
				x.Fail("I2:size-mismatch/denormalised-lazy/concurrent", "%s failed under concurrency (%s) but succeeds sequentially", where, got.err)
				return
			}
			if got.err != seq.err || got.digest != seq.digest {
				x.Fail("I2:"+op.Op, "%s: result under concurrency (digest %x err %q) differs from the sequential result (digest %x err %q)", where, got.digest, got.err, seq.digest, seq.err)
				return
			}
		}
	}
	// final state equals the eager twin
	tw, _ := decodeEager(o.Type, o.Wire)
	if !proto.Equal(M, tw) {
		x.Fail("I2:final-state", "after the read-only run the shared message is not Equal to the eager twin")
		return
	}
	b1, e1 := proto.MarshalOptions{AllowPartial: true, Deterministic: true}.Marshal(M)
	b2, e2 := proto.MarshalOptions{AllowPartial: true, Deterministic: true}.Marshal(tw)
	if e1 != nil || e2 != nil || !bytes.Equal(b1, b2) {
		x.Fail("I2:final-bytes", "after the read-only run deterministic bytes of the shared message differ from the eager twin's (%v / %v)", e1, e2)
	}
	if s.P["denorm"] > 0 {
		x.Fault("denormalised-wire")
	}
	if denormLazy {
		x.Probe("denormalised-inside-lazy", 1)
	}
}

var _ = protoreflect.Name("")
var _ = gen.TOpen2
