package work

import (
	"bytes"
	"fmt"
	"sort"
	"strings"

	"google.golang.org/protobuf/proto"
	"google.golang.org/protobuf/reflect/protoreflect"
	"google.golang.org/protobuf/zverifsim/gen"
	"google.golang.org/protobuf/zverifsim/scn"
	"google.golang.org/protobuf/zverifsim/sim"
)

// C16 — the size cache never makes Marshal output stale.
//
// Exclusive mutation phases alternate with read phases in which 1-3 clients
// call Size / Marshal / MarshalAppend / getters concurrently (legal: they are
// read-only, and every one of them writes size caches). The model is the
// mutation log: before every comparison a twin is rebuilt by replaying the log
// into a fresh message that has never been sized.
type c16 struct{}

func init() { sim.Register(c16{}) }

func (c16) ID() string { return "C16" }

var c16Types = []string{gen.TOpen2, gen.TOpen2, gen.TOpen3, gen.TEditions, gen.THybrid, gen.TOpaque, gen.TOpaque, gen.TLazyNode, gen.TMixedOpq, gen.TManyOpaque,
	gen.TExt2, gen.TExt2, "opaque.goproto.proto.testeditions.TestAllExtensions", "pbsim.fx.AfterOneof", "opaque.goproto.proto.test3.TestAllTypes"} // message- and group-typed extension values: sized through the extension's own coder

var c16Writes = []string{"set-scalar", "set-scalar", "clear-field", "set-msg", "mutable-touch", "gen-set-msg", "gen-clear", "merge-into", "append-list", "map-set", "elem-mutate", "elem-mutate", "unknown-append", "truncate-list", "decode-merge", "decode-merge"}
var c16Reads = []string{"size", "size", "marshal", "marshal", "marshal-det", "marshal-append", "size-marshal-cached", "get-chain", "reflect-range", "clone", "equal", "json"}

func (c16) Gen(r *sim.Rng, tier string) *scn.Scn {
	s := &scn.Scn{P: map[string]int64{}}
	typ := c16Types[r.Intn(len(c16Types))]
	var wire []byte
	denorm := 0
	if lazyCapable(typ) {
		intensity := 0
		if r.Chance(1, 4) {
			intensity = 120
		}
		var st gen.DenormStats
		wire, st = buildLazyWire(r.Fork(), typ, r.Range(2, 3), 2, intensity)
		denorm = st.Total()
	} else {
		o := gen.DefaultOpts()
		o.MaxDepth = 2
		o.FieldPerm = 60
		o.ForceLazy = true
		m := gen.New(r.Fork(), gen.Type(typ), o)
		wire, _ = proto.MarshalOptions{AllowPartial: true}.Marshal(m)
	}
	s.Objects = []scn.Object{{Type: typ, Wire: wire}}
	// a second object as merge source
	{
		o := gen.DefaultOpts()
		o.MaxDepth = 2
		o.FieldPerm = 80
		m := gen.New(r.Fork(), gen.Type(typ), o)
		w2, _ := proto.MarshalOptions{AllowPartial: true}.Marshal(m)
		s.Objects = append(s.Objects, scn.Object{Type: typ, Wire: w2})
	}
	s.P["denorm"] = int64(denorm)
	var paths [][]int32
	if t, err := decodeEager(typ, wire); err == nil {
		paths = msgPaths(t.ProtoReflect(), 4)
	}
	pickPath := func() []int32 {
		if len(paths) == 0 || r.Chance(1, 4) {
			return nil
		}
		return paths[r.Intn(len(paths))]
	}
	for p, np := 0, r.Range(2, 4); p < np; p++ {
		// read phase first: caches get filled before the first mutation
		ph := scn.Phase{Name: "reads", Sched: randSched(r)}
		nc := r.Range(1, 3)
		if denorm > 0 {
			nc = 1 // see the C18 known finding: no concurrent readers on denormalised lazy content
		}
		for c := 0; c < nc; c++ {
			var ops []scn.Op
			for i, n := 0, r.Range(1, 4); i < n; i++ {
				ops = append(ops, scn.Op{Op: c16Reads[r.Intn(len(c16Reads))], Path: pickPath(), N: int64(r.Intn(4))})
			}
			ph.Clients = append(ph.Clients, ops)
		}
		s.Phases = append(s.Phases, ph)
		var muts []scn.Op
		for i, n := 0, r.Range(1, 4); i < n; i++ {
			muts = append(muts, scn.Op{Op: c16Writes[r.Intn(len(c16Writes))], Path: pickPath(), Obj: 1, N: int64(r.Intn(1 << 16)), S: fmt.Sprint(r.U64() >> 1)})
		}
		s.Phases = append(s.Phases, scn.Phase{Name: "mutations (exclusive)", Clients: [][]scn.Op{muts}, Sched: scn.Sched{Kind: "tape"}})
	}
	// final read phase
	fin := scn.Phase{Name: "reads", Clients: [][]scn.Op{{{Op: "marshal"}, {Op: "marshal-det"}, {Op: "size"}}}, Sched: scn.Sched{Kind: "tape"}}
	s.Phases = append(s.Phases, fin)
	return s
}

// c16Write applies a mutation; it extends c17Write with collection edits.
func c16Write(root proto.Message, op *scn.Op, seed uint64, objs []scn.Object) uint64 {
	r := sim.NewRng(seed)
	pickField := func(m protoreflect.Message, pred func(fd protoreflect.FieldDescriptor) bool) protoreflect.FieldDescriptor {
		fds := m.Descriptor().Fields()
		var cands []protoreflect.FieldDescriptor
		for i := 0; i < fds.Len(); i++ {
			if fd := fds.Get(i); pred(fd) {
				cands = append(cands, fd)
			}
		}
		if len(cands) == 0 {
			return nil
		}
		return cands[int(op.N)%len(cands)]
	}
	o := gen.DefaultOpts()
	o.MaxDepth = 1
	o.Extensions = false
	if op.Op == "decode-merge" {
		// an overlay arrives from the wire and is merged into a message that has been sized before:
		// into the root, or into the submessage at the path (its part of the other object's content)
		ob := objs[op.Obj%len(objs)]
		uo := proto.UnmarshalOptions{Merge: true, AllowPartial: true}
		if len(op.Path) == 0 || op.N%3 == 0 {
			uo.Unmarshal(append([]byte(nil), ob.Wire...), root)
			return 7
		}
		src, err := decodeEager(ob.Type, ob.Wire)
		if err != nil {
			return 0
		}
		sub := walkRead(src.ProtoReflect(), op.Path)
		target := walkMutable(root.ProtoReflect(), op.Path)
		if sub.Descriptor() != target.Descriptor() || !sub.IsValid() {
			return 0
		}
		b, err := proto.MarshalOptions{AllowPartial: true}.Marshal(sub.Interface())
		if err != nil {
			return 0
		}
		uo.Unmarshal(b, target.Interface())
		return 8
	}
	switch op.Op {
	case "append-list":
		m := walkMutable(root.ProtoReflect(), op.Path)
		fd := pickField(m, func(fd protoreflect.FieldDescriptor) bool { return fd.IsList() })
		if fd == nil {
			return 0
		}
		l := m.Mutable(fd).List()
		if fd.Message() != nil {
			v := l.NewElement()
			gen.Populate(r, v.Message(), o)
			l.Append(v)
		} else {
			tmp := m.New()
			gen.SetField(r, tmp, fd, o, 0)
			tl := tmp.Get(fd).List()
			for i := 0; i < tl.Len(); i++ {
				l.Append(tl.Get(i))
			}
		}
		return uint64(fd.Number())
	case "truncate-list":
		m := walkMutable(root.ProtoReflect(), op.Path)
		fd := pickField(m, func(fd protoreflect.FieldDescriptor) bool { return fd.IsList() && m.Has(fd) })
		if fd == nil {
			return 0
		}
		l := m.Mutable(fd).List()
		l.Truncate(l.Len() / 2)
		return uint64(fd.Number())
	case "map-set":
		m := walkMutable(root.ProtoReflect(), op.Path)
		fd := pickField(m, func(fd protoreflect.FieldDescriptor) bool { return fd.IsMap() })
		if fd == nil {
			return 0
		}
		tmp := m.New()
		gen.SetField(r, tmp, fd, o, 0)
		mp := m.Mutable(fd).Map()
		type kv struct {
			k protoreflect.MapKey
			v protoreflect.Value
		}
		var kvs []kv
		tmp.Get(fd).Map().Range(func(k protoreflect.MapKey, v protoreflect.Value) bool { kvs = append(kvs, kv{k, v}); return true })
		sort.Slice(kvs, func(i, j int) bool { return kvs[i].k.String() < kvs[j].k.String() })
		for _, e := range kvs {
			if fd.MapValue().Message() != nil {
				nv := mp.NewValue()
				proto.Merge(nv.Message().Interface(), e.v.Message().Interface())
				mp.Set(e.k, nv)
			} else {
				mp.Set(e.k, e.v)
			}
		}
		return uint64(fd.Number())
	case "elem-mutate":
		// mutate a message that sits inside a repeated or map field, in place:
		// the parent's cached size is now stale
		m := walkMutable(root.ProtoReflect(), op.Path)
		fd := pickField(m, func(fd protoreflect.FieldDescriptor) bool {
			return m.Has(fd) && ((fd.IsList() && fd.Message() != nil) || (fd.IsMap() && fd.MapValue().Message() != nil))
		})
		if fd == nil {
			return 0
		}
		var em protoreflect.Message
		if fd.IsList() {
			l := m.Mutable(fd).List()
			em = l.Get(int(seed % uint64(l.Len()))).Message()
		} else {
			mp := m.Mutable(fd).Map()
			var keys []protoreflect.MapKey
			mp.Range(func(k protoreflect.MapKey, _ protoreflect.Value) bool { keys = append(keys, k); return true })
			sort.Slice(keys, func(i, j int) bool { return keys[i].String() < keys[j].String() })
			em = mp.Get(keys[int(seed%uint64(len(keys)))]).Message()
		}
		sf := pickField(em, func(fd protoreflect.FieldDescriptor) bool { return fd.Message() == nil && !fd.IsList() && !fd.IsMap() })
		if sf == nil {
			return 0
		}
		gen.SetField(r, em, sf, o, 0)
		return uint64(fd.Number())<<16 | uint64(sf.Number())
	case "unknown-append":
		m := walkMutable(root.ProtoReflect(), op.Path)
		if gen.IsMessageSet(m.Descriptor()) {
			return 0
		}
		m.SetUnknown(append(append([]byte(nil), m.GetUnknown()...), gen.UnknownFields(r, m.Descriptor())...))
		return 9
	}
	return c17Write(root, op, seed, objs, false)
}

func (c16) Run(s *scn.Scn, x *sim.Exec) {
	if len(s.Objects) == 0 {
		return
	}
	typ := s.Objects[0].Type
	M, err := decodeLazy(typ, s.Objects[0].Wire)
	if err != nil {
		return
	}
	var log []*scn.Op
	rebuild := func() proto.Message {
		t, _ := decodeEager(typ, s.Objects[0].Wire)
		for _, op := range log {
			var seed uint64
			fmt.Sscan(op.S, &seed)
			c16Write(t, op, seed, s.Objects)
		}
		return t
	}
	denorm := s.P["denorm"] > 0
	staleChecks := 0
	for pi := range s.Phases {
		ph := &s.Phases[pi]
		if strings.HasPrefix(ph.Name, "mutations") {
			x.RunPhase(pi, func(client, opi int, op *scn.Op) sim.OpResult {
				var seed uint64
				fmt.Sscan(op.S, &seed)
				r := c16Write(M, op, seed, s.Objects)
				log = append(log, op)
				return sim.OpResult{Digest: r}
			})
			if x.Failed() {
				return
			}
			continue
		}
		// read phase: the content is fixed; one never-sized twin per client
		twins := make([]proto.Message, len(ph.Clients))
		for i := range twins {
			twins[i] = rebuild()
		}
		var twinDet []byte
		if len(twins) > 0 {
			twinDet, _ = detBytes(rebuild())
		}
		mutated := len(log) > 0
		logs := x.RunPhase(pi, func(client, opi int, op *scn.Op) sim.OpResult {
			tw := twins[client]
			where := fmt.Sprintf("%s at path %s after %d mutations", op.Op, pathKey(op.Path), len(log))
			target := walkRead(M.ProtoReflect(), op.Path).Interface()
			ttarget := walkRead(tw.ProtoReflect(), op.Path).Interface()
			check := func(b []byte, err error, det bool) sim.OpResult {
				if err != nil {
					return sim.OpResult{Bad: fmt.Sprintf("marshal-error: %s: %v", where, err)}
				}
				back := ttarget.ProtoReflect().New().Interface()
				if uerr := (proto.UnmarshalOptions{AllowPartial: true, NoLazyDecoding: true}).Unmarshal(b, back); uerr != nil {
					return sim.OpResult{Bad: fmt.Sprintf("stale-output: %s: Marshal output does not decode: %v", where, uerr)}
				}
				if !proto.Equal(back, ttarget) {
					return sim.OpResult{Bad: fmt.Sprintf("stale-output: %s: Marshal output does not encode the message's current content (compared with a twin rebuilt from the mutation log)", where)}
				}
				if det && len(op.Path) == 0 && !bytes.Equal(b, twinDet) {
					return sim.OpResult{Bad: fmt.Sprintf("stale-output: %s: deterministic bytes differ from the never-sized twin's", where)}
				}
				return sim.OpResult{Digest: uint64(len(b)), Relaxed: !det}
			}
			switch op.Op {
			case "size":
				n := proto.Size(target)
				if !denorm {
					if want := proto.Size(ttarget); n != want {
						return sim.OpResult{Bad: fmt.Sprintf("stale-size: %s: Size returned %d, a never-sized twin with the same content has size %d", where, n, want)}
					}
				}
				return sim.OpResult{Digest: uint64(n), Relaxed: denorm}
			case "marshal":
				b, err := proto.MarshalOptions{AllowPartial: true}.Marshal(target)
				return check(b, err, false)
			case "marshal-append":
				b, err := proto.MarshalOptions{AllowPartial: true}.MarshalAppend(make([]byte, 0, 8), target)
				return check(b, err, false)
			case "marshal-det":
				b, err := proto.MarshalOptions{AllowPartial: true, Deterministic: true}.Marshal(target)
				return check(b, err, true)
			case "size-marshal-cached":
				// inside the documented contract: Size immediately followed by Marshal(UseCachedSize),
				// only sound when nobody else touches the caches in between: single-client phases only
				if len(ph.Clients) > 1 {
					b, err := proto.MarshalOptions{AllowPartial: true}.Marshal(target)
					return check(b, err, false)
				}
				proto.MarshalOptions{AllowPartial: true}.Size(target)
				b, err := proto.MarshalOptions{AllowPartial: true, UseCachedSize: true}.Marshal(target)
				return check(b, err, false)
			case "clone":
				c := proto.Clone(target)
				b, err := proto.MarshalOptions{AllowPartial: true}.Marshal(c)
				return check(b, err, false)
			case "equal":
				if !proto.Equal(target, ttarget) {
					return sim.OpResult{Bad: fmt.Sprintf("content-differs: %s: message is not Equal to the twin rebuilt from the mutation log (harness or mutation replay problem, or a decode/merge bug)", where)}
				}
				return sim.OpResult{Digest: 1}
			}
			cl := &c18Client{twin: tw}
			return c18Do(M, cl, op).opResult()
		})
		if x.Failed() {
			return
		}
		x.CompareWithDry(pi, logs)
		if mutated {
			staleChecks++
		}
		if len(ph.Clients) > 1 {
			x.Probe("concurrent-read-phases", 1)
		}
	}
	x.Probe("read-phases-after-mutation", int64(staleChecks))
	x.Probe("mutations-applied", int64(len(log)))
	if denorm {
		x.Fault("denormalised-wire")
	}
	shape := typ
	for _, ph := range s.Phases {
		for _, c := range ph.Clients {
			for _, op := range c {
				shape += "," + op.Op
			}
			shape += "|"
		}
	}
	if len(log) > 0 {
		x.Key(sim.HashStr(shape))
	}
}
