package work

import (
	"fmt"
	"math"
	"reflect"
	"sort"
	"strings"

	"google.golang.org/protobuf/encoding/protojson"
	"google.golang.org/protobuf/encoding/prototext"
	"google.golang.org/protobuf/encoding/protowire"
	"google.golang.org/protobuf/internal/impl"
	"google.golang.org/protobuf/internal/strs"
	"google.golang.org/protobuf/proto"
	"google.golang.org/protobuf/reflect/protoreflect"
	"google.golang.org/protobuf/reflect/protoregistry"
	"google.golang.org/protobuf/types/dynamicpb"
	"google.golang.org/protobuf/zverifsim/gen"
	"google.golang.org/protobuf/zverifsim/model"
	"google.golang.org/protobuf/zverifsim/scn"
	"google.golang.org/protobuf/zverifsim/sim"
)

// C28 / C11 / C12 — reflection contract, presence discipline, oneof
// exclusivity. One workload, three registrations that differ in operation mix
// and in which aspects of a model mismatch they report.
//
// The same seeded history is applied to an abstract message (model/absmsg.go)
// and to the real message (generated open / hybrid / opaque, or dynamicpb over
// the same descriptor). Exclusive mutation phases alternate with phases in
// which 1-4 clients issue non-mutating calls concurrently, which is the
// documented concurrency contract of protoreflect and what the simulator adds
// here (plus the race detector: obtaining a read-only view must not write).
type c28 struct {
	id      string
	aspects map[string]bool // nil = all
}

func init() {
	sim.Register(c28{id: "C28"})
	sim.Register(c28{id: "C11", aspects: map[string]bool{"has": true, "encoded-zero": true, "roundtrip": true}})
	sim.Register(c28{id: "C12", aspects: map[string]bool{"oneof": true, "multi-member-accepted": true}})
}

func (w c28) ID() string { return w.id }

var c28Types = []string{gen.TOpen2, gen.TOpen3, gen.TEditions, gen.THybrid, gen.TOpaque, gen.TOpaque, gen.TExt2, gen.TExt2, gen.TExt2, "goproto.proto.test.TestAllTypes.NestedMessage", "opaque.goproto.proto.testeditions.TestAllExtensions", gen.TManyOpaque,
	// editions files with file-level and field-level field_presence settings (IMPLICIT file default with EXPLICIT
	// overrides; LEGACY_REQUIRED scalars of every kind)
	"goproto.proto.test.TestAllTypesProto3Editions", "goproto.proto.test.TestAllTypesProto2Editions", c28Required,
	// proto3 with `optional` fields (synthetic oneofs) in the hybrid and opaque flavors
	"opaque.goproto.proto.test3.TestAllTypes", "opaque.goproto.proto.test3.TestAllTypes", "hybrid.goproto.proto.test3.TestAllTypes",
	// opaque fixture with presence-tracked fields declared after oneofs (pbsim/fx)
	"pbsim.fx.AfterOneof", "pbsim.fx.AfterOneof",
	// other shapes of numbering and nesting: a oneof in the middle of sparse field numbers, small proto2 /
	// proto3 / editions messages of the text-format test schemas (groups, requireds, proto3 optional)
	"goproto.proto.test.TestPackedExtensions", "goproto.proto.test.TestUnpackedExtensions", // extension-only messages: packed / unpacked repeated extensions of every scalar kind
	"goproto.proto.order.Message", "goproto.proto.order.Message", "pb2.Scalars", "pb2.Nests", "pb2.Requireds", "pb2.IndirectRequired", "pb2.Maps", "pb2.Repeats",
	"pb3.Scalars", "pb3.Proto3Optional", "pb3.Oneofs", "pb3.Maps", "pb3.Nests", "pbeditions.Scalars", "pbeditions.ImplicitScalars", "pbeditions.Nests", "pbeditions.Requireds",
	// the conformance messages: a oneof with NullValue / wrapper members, well-known-type fields (their
	// JSON forms constrain values, so the JSON and text round trips are left out for them, see c28TextUnsafe)
	"protobuf_test_messages.proto3.TestAllTypesProto3", "protobuf_test_messages.editions.proto3.TestAllTypesProto3"}

// (the proto2 conformance message is left out: it holds a MessageSet, which needs the protolegacy build tag to marshal)

// c28TextUnsafe: the message (two levels deep) has fields of well-known types whose JSON form accepts only
// some values (Duration, Timestamp, FieldMask, Any, Value, ...): a random history makes protojson.Marshal
// fail legitimately.
func c28TextUnsafe(md protoreflect.MessageDescriptor, depth int) bool {
	fds := md.Fields()
	for i := 0; i < fds.Len(); i++ {
		fd := fds.Get(i)
		mm := fd.Message()
		if fd.IsMap() {
			mm = fd.MapValue().Message()
		}
		if mm == nil {
			continue
		}
		if strings.HasPrefix(string(mm.FullName()), "google.protobuf.") {
			return true
		}
		if depth > 0 && mm != md && c28TextUnsafe(mm, depth-1) {
			return true
		}
	}
	return false
}

// c28Required stands for one of the single-field messages of internal/testprotos/required (all flavors), chosen by the scenario.
const c28Required = "required/*"

var c28RequiredKinds = []string{"Int32", "Int64", "Uint32", "Uint64", "Sint32", "Sint64", "Fixed32", "Fixed64", "Float", "Double", "Bool", "String", "Bytes", "Message", "Group"}

var c28MutAll = []string{"set", "set", "set", "set-zero", "clear", "clear", "set-msg-empty", "mutable-msg", "list-append", "list-append", "list-set", "list-truncate", "map-set", "map-set", "map-clear",
	"oneof-set", "oneof-set", "oneof-msg-mutable", "set-unknown", "ext-set", "ext-clear", "merge", "decode-oneof-multi", "roundtrip-bin", "roundtrip-json", "roundtrip-text", "readonly-write", "check-encoded", "json-two-members", "text-two-members", "presence-sweep", "emptied-view", "emptied-view", "gen-set", "gen-set", "gen-clear", "gen-set-msg", "gen-clear-msg", "gen-oneof-nil-wrapper", "range-scrub", "gen-oneof-nil-wrapper"}
var c28MutC11 = []string{"set", "set", "set-zero", "set-zero", "set-zero", "clear", "clear", "presence-sweep", "emptied-view", "gen-set", "gen-set", "gen-clear", "gen-set-msg", "gen-clear-msg", "gen-oneof-nil-wrapper", "set-msg-empty", "mutable-msg", "list-append", "list-truncate", "map-set", "map-clear", "oneof-set", "ext-set", "ext-clear",
	"roundtrip-bin", "roundtrip-bin", "roundtrip-json", "roundtrip-text", "check-encoded", "check-encoded", "merge"}
var c28MutC12 = []string{"gen-set", "gen-set", "gen-clear", "gen-set-msg", "gen-clear-msg", "gen-oneof-nil-wrapper", "oneof-set", "oneof-set", "oneof-set", "oneof-set", "oneof-msg-mutable", "oneof-msg-mutable", "clear", "set", "merge", "merge", "decode-oneof-multi", "decode-oneof-multi", "decode-oneof-multi",
	"roundtrip-bin", "roundtrip-json", "roundtrip-text", "json-two-members", "json-two-members", "text-two-members", "text-two-members", "set-msg-empty"}
var c28Reads = []string{"render", "render", "range", "has", "get", "which", "unknown", "len", "descriptor"}

func (w c28) Gen(r *sim.Rng, tier string) *scn.Scn {
	s := &scn.Scn{P: map[string]int64{}}
	typ := c28Types[r.Intn(len(c28Types))]
	if typ == c28Required {
		typ = []string{"", "hybrid.", "opaque."}[r.Intn(3)] + "goproto.proto.testrequired." + c28RequiredKinds[r.Intn(len(c28RequiredKinds))]
	}
	if _, err := protoregistry.GlobalTypes.FindMessageByName(protoreflect.FullName(typ)); err != nil {
		typ = gen.TOpen2
	}
	s.Objects = []scn.Object{{Type: typ}}
	if synthOdds := map[string]int{"C11": 4, "C28": 8, "C12": 12}[w.id]; synthOdds > 0 && r.Chance(1, synthOdds) {
		s.Objects = []scn.Object{{Type: "synth", Seed: r.U64() >> 20}}
		s.P["synth_builder"] = int64(r.Intn(2))
	}
	if r.Chance(1, 3) {
		s.P["dynamic"] = int64(r.Range(1, 2)) // 1: dynamicpb over the linked descriptor, 2: over a protodesc-rebuilt one
	}
	if r.Chance(4, 5) {
		s.P["focus"] = int64(r.U64()>>2) | 1
	}
	muts := c28MutAll
	switch w.id {
	case "C11":
		muts = c28MutC11
	case "C12":
		muts = c28MutC12
	}
	for p, np := 0, r.Range(2, 4); p < np; p++ {
		var ops []scn.Op
		for i, n := 0, r.Range(2, 8); i < n; i++ {
			op := scn.Op{Op: muts[r.Intn(len(muts))], N: int64(r.Intn(1 << 16)), M: int64(r.Intn(1 << 16)), S: fmt.Sprint(r.U64() >> 1)}
			if r.Chance(1, 3) {
				op.Flag = true // operate on a submessage reached through Mutable
			}
			ops = append(ops, op)
		}
		s.Phases = append(s.Phases, scn.Phase{Name: "mutations (exclusive)", Clients: [][]scn.Op{ops}, Sched: scn.Sched{Kind: "tape"}})
		ph := scn.Phase{Name: "reads", Sched: randSched(r)}
		for c, nc := 0, r.Range(1, 4); c < nc; c++ {
			var rops []scn.Op
			for i, n := 0, r.Range(1, 4); i < n; i++ {
				rops = append(rops, scn.Op{Op: c28Reads[r.Intn(len(c28Reads))], N: int64(r.Intn(1 << 16))})
			}
			ph.Clients = append(ph.Clients, rops)
		}
		s.Phases = append(s.Phases, ph)
	}
	return s
}

// ---- rendering the real message in the model's format ----

func renderRealField(b *strings.Builder, m protoreflect.Message, fd protoreflect.FieldDescriptor) {
	has := m.Has(fd)
	fmt.Fprintf(b, " %d:", fd.Number())
	if has {
		b.WriteString("+")
	} else {
		b.WriteString("-")
	}
	v := m.Get(fd)
	switch {
	case fd.IsMap():
		b.WriteString("map[")
		mp := v.Map()
		type kv struct {
			k model.Scalar
			v protoreflect.Value
		}
		var kvs []kv
		mp.Range(func(k protoreflect.MapKey, mv protoreflect.Value) bool {
			kvs = append(kvs, kv{model.FromValue(fd.MapKey().Kind(), k.Value()), mv})
			return true
		})
		sort.Slice(kvs, func(i, j int) bool { return kvs[i].k.String() < kvs[j].k.String() })
		for _, e := range kvs {
			b.WriteString(e.k.String() + "=")
			if fd.MapValue().Message() != nil {
				renderReal(b, e.v.Message())
			} else {
				b.WriteString(model.FromValue(fd.MapValue().Kind(), e.v).String())
			}
			b.WriteString(",")
		}
		b.WriteString("]")
	case fd.IsList():
		b.WriteString("[")
		l := v.List()
		for i := 0; i < l.Len(); i++ {
			if fd.Message() != nil {
				renderReal(b, l.Get(i).Message())
			} else {
				b.WriteString(model.FromValue(fd.Kind(), l.Get(i)).String())
			}
			b.WriteString(",")
		}
		b.WriteString("]")
	case fd.Message() != nil:
		if has {
			renderReal(b, v.Message())
		} else {
			// Get of an unpopulated message field: an empty, read-only message
			empty := true
			v.Message().Range(func(protoreflect.FieldDescriptor, protoreflect.Value) bool { empty = false; return false })
			if empty && len(v.Message().GetUnknown()) == 0 {
				b.WriteString("<empty>")
			} else {
				b.WriteString("<unpopulated-but-not-empty>")
			}
		}
	default:
		b.WriteString(model.FromValue(fd.Kind(), v).String())
	}
}

func renderReal(b *strings.Builder, m protoreflect.Message) { b.WriteString(nestedReal(m)) }

// realLines mirrors model.AMsg.Lines (and render for nested messages).
func realLines(m protoreflect.Message) []string {
	var out []string
	fds := m.Descriptor().Fields()
	for i := 0; i < fds.Len(); i++ {
		var b strings.Builder
		renderRealField(&b, m, fds.Get(i))
		out = append(out, "f"+b.String())
	}
	var xs []protoreflect.FieldDescriptor
	m.Range(func(fd protoreflect.FieldDescriptor, _ protoreflect.Value) bool {
		if fd.IsExtension() {
			xs = append(xs, fd)
		}
		return true
	})
	sort.Slice(xs, func(i, j int) bool { return xs[i].Number() < xs[j].Number() })
	for _, fd := range xs {
		var b strings.Builder
		renderRealField(&b, m, fd)
		out = append(out, "x"+b.String())
	}
	for i := 0; i < m.Descriptor().Oneofs().Len(); i++ {
		od := m.Descriptor().Oneofs().Get(i)
		n := protoreflect.FieldNumber(0)
		if w := m.WhichOneof(od); w != nil {
			n = w.Number()
		}
		out = append(out, fmt.Sprintf("o %s=%d", od.Name(), n))
	}
	out = append(out, fmt.Sprintf("u %x", m.GetUnknown()))
	return out
}

// nestedReal mirrors model.AMsg.render: a nested message is rendered as
// "{ fields... oneof ... unknown=...}".
func nestedReal(m protoreflect.Message) string {
	var b strings.Builder
	b.WriteString("{")
	fds := m.Descriptor().Fields()
	for i := 0; i < fds.Len(); i++ {
		renderRealField(&b, m, fds.Get(i))
	}
	var xs []protoreflect.FieldDescriptor
	m.Range(func(fd protoreflect.FieldDescriptor, _ protoreflect.Value) bool {
		if fd.IsExtension() {
			xs = append(xs, fd)
		}
		return true
	})
	sort.Slice(xs, func(i, j int) bool { return xs[i].Number() < xs[j].Number() })
	for _, fd := range xs {
		renderRealField(&b, m, fd)
	}
	for i := 0; i < m.Descriptor().Oneofs().Len(); i++ {
		od := m.Descriptor().Oneofs().Get(i)
		n := protoreflect.FieldNumber(0)
		if w := m.WhichOneof(od); w != nil {
			n = w.Number()
		}
		fmt.Fprintf(&b, " oneof %s=%d", od.Name(), n)
	}
	fmt.Fprintf(&b, " unknown=%x}", m.GetUnknown())
	return b.String()
}

// compareWithModel returns (aspect, detail) of the first difference, or "".
func compareWithModel(am *model.AMsg, m protoreflect.Message) (string, string) {
	d := allDiffs(am, m, nil)
	if len(d) == 0 {
		return "", ""
	}
	return d[0][0], d[0][1]
}

// compareFor prefers a difference in an aspect the caller reports.
func (w c28) compareFor(am *model.AMsg, m protoreflect.Message) (string, string) {
	d := allDiffs(am, m, nil)
	if len(d) == 0 {
		return "", ""
	}
	for _, e := range d {
		if w.report(e[0]) {
			return e[0], e[1]
		}
	}
	return d[0][0], d[0][1]
}

func allDiffs(am *model.AMsg, m protoreflect.Message, _ []string) (out [][2]string) {
	diffLines(am, m, func(aspect, det string) { out = append(out, [2]string{aspect, det}) })
	return out
}

func diffLines(am *model.AMsg, m protoreflect.Message, emit func(aspect, det string)) {
	a, r := am.Lines(), realLines(m)
	if len(a) != len(r) {
		emit("value", fmt.Sprintf("model renders %d aspects, message %d (extension sets differ?)", len(a), len(r)))
		return
	}
	for i := range a {
		if a[i] == r[i] {
			continue
		}
		aspect := "value"
		switch a[i][0] {
		case 'o':
			aspect = "oneof"
		case 'u':
			aspect = "unknown"
		case 'f', 'x':
			ai, ri := strings.IndexByte(a[i], ':'), strings.IndexByte(r[i], ':')
			if ai > 0 && ri > 0 && ai+1 < len(a[i]) && ri+1 < len(r[i]) && (a[i][:ai] != r[i][:ri] || a[i][ai+1] != r[i][ri+1]) {
				aspect = "has"
			}
		}
		emit(aspect, fmt.Sprintf("model says %q, message says %q", trunc(a[i], 300), trunc(r[i], 300)))
	}
	// oneof exclusivity stated directly: at most one member populated, WhichOneof names it
	md := m.Descriptor()
	for i := 0; i < md.Oneofs().Len(); i++ {
		od := md.Oneofs().Get(i)
		cnt := 0
		for j := 0; j < od.Fields().Len(); j++ {
			if m.Has(od.Fields().Get(j)) {
				cnt++
			}
		}
		w := m.WhichOneof(od)
		if cnt > 1 {
			emit("oneof", fmt.Sprintf("%d members of oneof %s are populated at once", cnt, od.Name()))
		} else if (cnt == 1) != (w != nil) || (w != nil && !m.Has(w)) {
			emit("oneof", fmt.Sprintf("WhichOneof(%s) disagrees with Has of the members", od.Name()))
		}
	}
	seen := map[int]int{}
	m.Range(func(fd protoreflect.FieldDescriptor, _ protoreflect.Value) bool {
		seen[int(fd.Number())]++
		return true
	})
	want := am.Populated()
	if len(seen) != len(want) {
		emit("range", fmt.Sprintf("Range visited %d fields, %d are populated", len(seen), len(want)))
		return
	}
	for _, n := range want {
		if seen[n] != 1 {
			emit("range", fmt.Sprintf("Range visited field %d %d times", n, seen[n]))
		}
	}
}

// ---- operations ----

type c28Pair struct {
	am *model.AMsg
	m  proto.Message
}

func c28Value(r *sim.Rng, fd protoreflect.FieldDescriptor, zero bool) model.Scalar {
	if zero {
		if r.Bool() {
			return model.Default(fd)
		}
		s := model.Scalar{Kind: fd.Kind()}
		if fd.Kind() == protoreflect.EnumKind {
			s.I = int64(fd.Enum().Values().Get(0).Number())
		}
		return s
	}
	tmp := dynamicpb.NewMessage(fd.ContainingMessage())
	o := gen.DefaultOpts()
	if fd.IsExtension() || fd.IsList() || fd.IsMap() {
		// draw a scalar of the right kind through a scratch value
		return scalarOfKind(r, fd)
	}
	gen.SetField(r, tmp, fd, o, 0)
	return model.FromValue(fd.Kind(), tmp.Get(fd))
}

func scalarOfKind(r *sim.Rng, fd protoreflect.FieldDescriptor) model.Scalar {
	s := model.Scalar{Kind: fd.Kind()}
	switch fd.Kind() {
	case protoreflect.BoolKind:
		s.I = int64(r.Intn(2))
	case protoreflect.EnumKind:
		vs := fd.Enum().Values()
		s.I = int64(vs.Get(r.Intn(vs.Len())).Number())
	case protoreflect.Int32Kind, protoreflect.Sint32Kind, protoreflect.Sfixed32Kind:
		s.I = int64(int32(r.U64()))
		if r.Chance(1, 3) {
			s.I = int64(r.Intn(5)) - 1
		}
	case protoreflect.Int64Kind, protoreflect.Sint64Kind, protoreflect.Sfixed64Kind:
		s.I = int64(r.U64())
		if r.Chance(1, 3) {
			s.I = int64(r.Intn(5)) - 1
		}
	case protoreflect.Uint32Kind, protoreflect.Fixed32Kind:
		s.U = uint64(uint32(r.U64()))
		if r.Chance(1, 3) {
			s.U = uint64(r.Intn(3))
		}
	case protoreflect.Uint64Kind, protoreflect.Fixed64Kind:
		s.U = r.U64()
		if r.Chance(1, 3) {
			s.U = uint64(r.Intn(3))
		}
	case protoreflect.FloatKind:
		s.F = float64(float32(r.Intn(2000)-1000) / 8)
	case protoreflect.DoubleKind:
		s.F = float64(r.Intn(200000)-100000) / 16
	case protoreflect.StringKind:
		s.S = gen.String(r)
	case protoreflect.BytesKind:
		s.S = string(r.Bytes(r.Intn(6)))
	}
	return s
}

// c28Focus is set for the duration of a scenario: most field choices fall
// into a small focus set of fields of the root type (two singular message
// fields, three scalars, a list, a map, two oneof members), so that a history
// keeps coming back to the same fields (Mutable, Clear, Mutable again, Set,
// Merge ...) instead of spreading thinly over a hundred.
var c28Focus map[protoreflect.FullName]bool

func c28MakeFocus(md protoreflect.MessageDescriptor, seed uint64) map[protoreflect.FullName]bool {
	if seed == 0 {
		return nil
	}
	r := sim.NewRng(seed)
	set := map[protoreflect.FullName]bool{}
	take := func(n int, pred func(fd protoreflect.FieldDescriptor) bool) {
		var c []protoreflect.FieldDescriptor
		for i := 0; i < md.Fields().Len(); i++ {
			if fd := md.Fields().Get(i); pred(fd) && !fd.IsWeak() {
				c = append(c, fd)
			}
		}
		for i := 0; i < n && len(c) > 0; i++ {
			set[c[r.Intn(len(c))].FullName()] = true
		}
	}
	take(2, func(fd protoreflect.FieldDescriptor) bool { return isSingularMsg(fd) && fd.ContainingOneof() == nil })
	take(3, func(fd protoreflect.FieldDescriptor) bool { return isSingularScalar(fd) && fd.ContainingOneof() == nil })
	take(1, func(fd protoreflect.FieldDescriptor) bool { return fd.IsList() })
	take(1, func(fd protoreflect.FieldDescriptor) bool { return fd.IsMap() })
	take(2, func(fd protoreflect.FieldDescriptor) bool { return fd.ContainingOneof() != nil })
	return set
}

func pickFD(md protoreflect.MessageDescriptor, n int64, pred func(fd protoreflect.FieldDescriptor) bool) protoreflect.FieldDescriptor {
	var c, f []protoreflect.FieldDescriptor
	fds := md.Fields()
	for i := 0; i < fds.Len(); i++ {
		if fd := fds.Get(i); pred(fd) && !fd.IsWeak() {
			c = append(c, fd)
			if c28Focus[fd.FullName()] {
				f = append(f, fd)
			}
		}
	}
	if len(c) == 0 {
		return nil
	}
	if len(f) > 0 && n%6 != 0 {
		return f[int(n/7)%len(f)]
	}
	return c[int(n)%len(c)]
}

func isSingularScalar(fd protoreflect.FieldDescriptor) bool {
	return !fd.IsList() && !fd.IsMap() && fd.Message() == nil
}
func isSingularMsg(fd protoreflect.FieldDescriptor) bool {
	return !fd.IsList() && !fd.IsMap() && fd.Message() != nil
}

// target descends (through Mutable on both sides) into a submessage when the op asks for it.
func (p *c28Pair) target(op *scn.Op) (*model.AMsg, protoreflect.Message) {
	am, m := p.am, p.m.ProtoReflect()
	if op.Flag {
		if fd := pickFD(m.Descriptor(), op.M, func(fd protoreflect.FieldDescriptor) bool {
			return isSingularMsg(fd) && fd.ContainingOneof() == nil
		}); fd != nil {
			return am.MutableMsg(fd), m.Mutable(fd).Message()
		}
	}
	return am, m
}

func stripUnknown(am *model.AMsg) {
	am.Unknown = ""
	for _, v := range am.Fields {
		if v.M != nil {
			stripUnknown(v.M)
		}
		for _, e := range v.List {
			if e.M != nil {
				stripUnknown(e.M)
			}
		}
		for _, e := range v.Map {
			if e.M != nil {
				stripUnknown(e.M)
			}
		}
	}
}

func extsOf(md protoreflect.MessageDescriptor) []protoreflect.ExtensionType {
	return gen.ExtensionsOf(md)
}

// mutate applies op to both sides. It returns "aspect: detail" for inline
// checks that failed (multi-member acceptance, read-only writes, encoded zeros).
func (p *c28Pair) mutate(op *scn.Op, newMsg func() proto.Message) string {
	var seed uint64
	fmt.Sscan(op.S, &seed)
	r := sim.NewRng(seed)
	am, m := p.target(op)
	md := m.Descriptor()
	switch op.Op {
	case "set", "set-zero":
		fd := pickFD(md, op.N, isSingularScalar)
		if fd == nil {
			return ""
		}
		v := c28Value(r, fd, op.Op == "set-zero")
		am.SetScalar(fd, v)
		m.Set(fd, v.ToValue())
	case "clear":
		fd := pickFD(md, op.N, func(protoreflect.FieldDescriptor) bool { return true })
		if fd == nil {
			return ""
		}
		am.Clear(fd)
		m.Clear(fd)
	case "gen-set", "gen-clear":
		// the generated accessors of the hybrid and opaque APIs (SetX / ClearX / HasX / GetX), found by name
		// through Go reflection; the open struct API has getters only and the operation does nothing there
		fd := pickFD(md, op.N, isSingularScalar)
		if fd == nil || !m.IsValid() {
			return ""
		}
		gm := reflect.ValueOf(m.Interface())
		name := strs.GoCamelCase(string(fd.Name()))
		has := gm.MethodByName("Has" + name)
		if op.Op == "gen-clear" {
			clr := gm.MethodByName("Clear" + name)
			if !clr.IsValid() || clr.Type().NumIn() != 0 {
				return ""
			}
			clr.Call(nil)
			am.Clear(fd)
			if has.IsValid() && has.Type().NumIn() == 0 && has.Call(nil)[0].Bool() {
				return fmt.Sprintf("has: generated Has%s is true right after Clear%s", name, name)
			}
			return ""
		}
		set := gm.MethodByName("Set" + name)
		if !set.IsValid() || set.Type().NumIn() != 1 {
			return ""
		}
		v := c28Value(r, fd, op.M%3 == 0)
		var arg reflect.Value
		switch t := set.Type().In(0); t.Kind() {
		case reflect.Int32, reflect.Int64:
			arg = reflect.ValueOf(v.I).Convert(t)
		case reflect.Uint32, reflect.Uint64:
			arg = reflect.ValueOf(v.U).Convert(t)
		case reflect.Float32, reflect.Float64:
			arg = reflect.ValueOf(v.F).Convert(t)
		case reflect.Bool:
			arg = reflect.ValueOf(v.I != 0)
		case reflect.String:
			arg = reflect.ValueOf(v.S)
		case reflect.Slice:
			arg = reflect.ValueOf([]byte(v.S))
		default:
			return ""
		}
		set.Call([]reflect.Value{arg})
		am.SetScalar(fd, v)
		if has.IsValid() && has.Type().NumIn() == 0 && model.ExplicitPresence(fd) && !has.Call(nil)[0].Bool() {
			return fmt.Sprintf("has: generated Has%s is false right after Set%s on a field with explicit presence", name, name)
		}
		if get := gm.MethodByName("Get" + name); get.IsValid() && get.Type().NumIn() == 0 {
			got := get.Call(nil)[0]
			same := true
			switch got.Kind() {
			case reflect.Int32, reflect.Int64:
				same = got.Int() == v.I
			case reflect.Uint32, reflect.Uint64:
				same = got.Uint() == v.U
			case reflect.Float32:
				same = math.Float32bits(float32(got.Float())) == math.Float32bits(float32(v.F))
			case reflect.Float64:
				same = math.Float64bits(got.Float()) == math.Float64bits(v.F)
			case reflect.Bool:
				same = got.Bool() == (v.I != 0)
			case reflect.String:
				same = got.String() == v.S
			case reflect.Slice:
				same = string(got.Bytes()) == v.S
			}
			if !same {
				return fmt.Sprintf("value: generated Get%s returns %v right after Set%s(%v)", name, got.Interface(), name, arg.Interface())
			}
		}
	case "gen-oneof-nil-wrapper":
		// open and hybrid structs: a oneof wrapper allocated with a nil message inside (the struct-literal
		// idiom &M{Oneof: &M_Member{}}): the member is selected and holds an empty message
		if !m.IsValid() {
			return ""
		}
		mi, ok := m.Type().(*impl.MessageInfo)
		if !ok || len(mi.OneofWrappers) == 0 {
			return ""
		}
		sv := reflect.ValueOf(m.Interface())
		if sv.Kind() != reflect.Ptr || sv.Elem().Kind() != reflect.Struct {
			return ""
		}
		type cand struct {
			fd protoreflect.FieldDescriptor
			wt reflect.Type
		}
		var cands []cand
		for _, w := range mi.OneofWrappers {
			wt := reflect.TypeOf(w).Elem()
			if wt.NumField() != 1 || wt.Field(0).Type.Kind() != reflect.Ptr || wt.Field(0).Type.Elem().Kind() != reflect.Struct {
				continue
			}
			var num int
			fmt.Sscanf(strings.SplitN(wt.Field(0).Tag.Get("protobuf"), ",", 3)[1], "%d", &num)
			if fd := md.Fields().ByNumber(protoreflect.FieldNumber(num)); fd != nil && fd.Message() != nil && fd.ContainingOneof() != nil {
				cands = append(cands, cand{fd, wt})
			}
		}
		if len(cands) == 0 {
			return ""
		}
		c := cands[int(op.N)%len(cands)]
		set := false
		for i := 0; i < sv.Elem().NumField(); i++ {
			f := sv.Elem().Field(i)
			if f.Kind() == reflect.Interface && f.CanSet() && reflect.PointerTo(c.wt).Implements(f.Type()) {
				f.Set(reflect.New(c.wt))
				set = true
				break
			}
		}
		if !set {
			return "" // opaque structs keep the oneof in an unexported field
		}
		am.SetMsg(c.fd, model.NewMsg(c.fd.Message()))
		if !m.Has(c.fd) {
			return fmt.Sprintf("has: oneof member %s selected through a wrapper holding a nil message: Has is false (WhichOneof names %v)", c.fd.Name(), m.WhichOneof(c.fd.ContainingOneof()) != nil)
		}
	case "gen-set-msg", "gen-clear-msg":
		// generated SetX(*T) / ClearX() / HasX() of a singular message field (hybrid and opaque APIs), also
		// for message-typed oneof members
		fd := pickFD(md, op.N, isSingularMsg)
		if fd == nil || !m.IsValid() {
			return ""
		}
		gm := reflect.ValueOf(m.Interface())
		name := strs.GoCamelCase(string(fd.Name()))
		has := gm.MethodByName("Has" + name)
		if op.Op == "gen-clear-msg" {
			clr := gm.MethodByName("Clear" + name)
			if !clr.IsValid() || clr.Type().NumIn() != 0 {
				return ""
			}
			clr.Call(nil)
			am.Clear(fd)
			if has.IsValid() && has.Type().NumIn() == 0 && has.Call(nil)[0].Bool() {
				return fmt.Sprintf("has: generated Has%s is true right after Clear%s", name, name)
			}
			return ""
		}
		set := gm.MethodByName("Set" + name)
		if !set.IsValid() || set.Type().NumIn() != 1 || set.Type().In(0).Kind() != reflect.Ptr || set.Type().In(0).Elem().Kind() != reflect.Struct {
			return ""
		}
		arg := reflect.New(set.Type().In(0).Elem())
		pm, ok := arg.Interface().(proto.Message)
		if !ok || pm.ProtoReflect().Descriptor().FullName() != fd.Message().FullName() {
			return ""
		}
		sub := model.NewMsg(fd.Message())
		if sf := pickFD(fd.Message(), op.M, isSingularScalar); sf != nil && r.Bool() {
			v := c28Value(r, sf, false)
			sub.SetScalar(sf, v)
			pm.ProtoReflect().Set(sf, v.ToValue())
		}
		set.Call([]reflect.Value{arg})
		am.SetMsg(fd, sub)
		if has.IsValid() && has.Type().NumIn() == 0 && !has.Call(nil)[0].Bool() {
			return fmt.Sprintf("has: generated Has%s is false right after Set%s of a non-nil message", name, name)
		}
		if get := gm.MethodByName("Get" + name); get.IsValid() && get.Type().NumIn() == 0 {
			if got := get.Call(nil)[0]; got.Kind() == reflect.Ptr && got.Pointer() != arg.Pointer() {
				return fmt.Sprintf("value: generated Get%s does not return the message given to Set%s", name, name)
			}
		}
	case "set-msg-empty":
		fd := pickFD(md, op.N, isSingularMsg)
		if fd == nil {
			return ""
		}
		am.SetMsg(fd, model.NewMsg(fd.Message()))
		m.Set(fd, m.NewField(fd))
	case "mutable-msg":
		fd := pickFD(md, op.N, isSingularMsg)
		if fd == nil {
			return ""
		}
		sub := am.MutableMsg(fd)
		rs := m.Mutable(fd).Message()
		if sf := pickFD(rs.Descriptor(), op.M, isSingularScalar); sf != nil && r.Bool() {
			v := c28Value(r, sf, false)
			sub.SetScalar(sf, v)
			rs.Set(sf, v.ToValue())
		}
	case "list-append", "list-set", "list-truncate":
		fd := pickFD(md, op.N, func(fd protoreflect.FieldDescriptor) bool { return fd.IsList() })
		if fd == nil {
			return ""
		}
		l := m.Mutable(fd).List()
		switch op.Op {
		case "list-append":
			if fd.Message() != nil {
				e := l.NewElement()
				sub := model.NewMsg(fd.Message())
				if sf := pickFD(fd.Message(), op.M, isSingularScalar); sf != nil {
					v := c28Value(r, sf, false)
					sub.SetScalar(sf, v)
					e.Message().Set(sf, v.ToValue())
				}
				l.Append(e)
				am.Append(fd, &model.AVal{M: sub})
			} else {
				v := scalarOfKind(r, fd)
				if op.M%5 == 0 {
					v = model.Scalar{Kind: fd.Kind()}
					if fd.Kind() == protoreflect.EnumKind {
						v.I = int64(fd.Enum().Values().Get(0).Number())
					}
					ne := l.NewElement()
					if got := model.FromValue(fd.Kind(), ne); got.String() != v.String() {
						return fmt.Sprintf("value: NewElement of list field %s is %s, want %s", fd.Name(), got.String(), v.String())
					}
					l.Append(ne)
				} else {
					l.Append(v.ToValue())
				}
				am.Append(fd, &model.AVal{S: v})
			}
		case "list-set":
			if l.Len() == 0 || fd.Message() != nil {
				return ""
			}
			i := int(op.M) % l.Len()
			v := scalarOfKind(r, fd)
			l.Set(i, v.ToValue())
			am.ListSet(fd, i, &model.AVal{S: v})
		case "list-truncate":
			if l.Len() == 0 {
				return ""
			}
			n := int(op.M) % (l.Len() + 1)
			if op.M%3 == 0 {
				n = 0 // emptied but once written to: the field is unpopulated again
			}
			l.Truncate(n)
			am.Truncate(fd, n)
		}
	case "map-set", "map-clear":
		fd := pickFD(md, op.N, func(fd protoreflect.FieldDescriptor) bool { return fd.IsMap() })
		if fd == nil {
			return ""
		}
		mp := m.Mutable(fd).Map()
		k := scalarOfKind(r, fd.MapKey())
		if r.Chance(1, 2) {
			// small key space, so that overwrites and clears hit
			k = model.Scalar{Kind: fd.MapKey().Kind()}
			switch fd.MapKey().Kind() {
			case protoreflect.StringKind:
				k.S = []string{"", "a", "b"}[r.Intn(3)]
			case protoreflect.BoolKind:
				k.I = int64(r.Intn(2))
			case protoreflect.Uint32Kind, protoreflect.Uint64Kind, protoreflect.Fixed32Kind, protoreflect.Fixed64Kind:
				k.U = uint64(r.Intn(3))
			default:
				k.I = int64(r.Intn(3))
			}
		}
		if op.Op == "map-clear" {
			mp.Clear(k.ToValue().MapKey())
			am.MapClear(fd, k)
			return ""
		}
		if fd.MapValue().Message() != nil {
			nv := mp.NewValue()
			sub := model.NewMsg(fd.MapValue().Message())
			if sf := pickFD(fd.MapValue().Message(), op.M, isSingularScalar); sf != nil {
				v := c28Value(r, sf, false)
				sub.SetScalar(sf, v)
				nv.Message().Set(sf, v.ToValue())
			}
			mp.Set(k.ToValue().MapKey(), nv)
			am.MapSet(fd, k, &model.AVal{M: sub})
		} else {
			v := scalarOfKind(r, fd.MapValue())
			mp.Set(k.ToValue().MapKey(), v.ToValue())
			am.MapSet(fd, k, &model.AVal{S: v})
		}
	case "oneof-set", "oneof-msg-mutable":
		if md.Oneofs().Len() == 0 {
			return ""
		}
		od := md.Oneofs().Get(int(op.N) % md.Oneofs().Len())
		if od.IsSynthetic() || od.Fields().Len() == 0 {
			return ""
		}
		fd := od.Fields().Get(int(op.M) % od.Fields().Len())
		if op.Op == "oneof-msg-mutable" {
			// prefer a message-typed member
			for i := 0; i < od.Fields().Len(); i++ {
				if f := od.Fields().Get((int(op.M) + i) % od.Fields().Len()); f.Message() != nil {
					fd = f
					break
				}
			}
		}
		if fd.Message() != nil {
			if op.Op == "oneof-msg-mutable" || r.Bool() {
				sub := am.MutableMsg(fd)
				rs := m.Mutable(fd).Message()
				if sf := pickFD(rs.Descriptor(), int64(seed), isSingularScalar); sf != nil {
					v := c28Value(r, sf, false)
					sub.SetScalar(sf, v)
					rs.Set(sf, v.ToValue())
				}
			} else {
				am.SetMsg(fd, model.NewMsg(fd.Message()))
				m.Set(fd, m.NewField(fd))
			}
		} else {
			v := c28Value(r, fd, r.Chance(1, 3))
			am.SetScalar(fd, v)
			m.Set(fd, v.ToValue())
		}
	case "set-unknown":
		if gen.IsMessageSet(md) {
			return ""
		}
		u := gen.UnknownFields(r, md)
		am.Unknown = string(u)
		m.SetUnknown(u)
	case "ext-set", "ext-clear":
		am, m = p.am, p.m.ProtoReflect() // extensions on the root only
		xts := extsOf(m.Descriptor())
		if len(xts) == 0 {
			return ""
		}
		xt := xts[int(op.N)%len(xts)]
		if op.Op == "ext-set" && op.M%4 == 0 {
			// (the NewElement case below: a repeated scalar extension, enums preferred)
			var lists, enums []protoreflect.ExtensionType
			for _, c := range xts {
				if d := c.TypeDescriptor(); d.IsList() && d.Message() == nil {
					lists = append(lists, c)
					if d.Kind() == protoreflect.EnumKind {
						enums = append(enums, c)
					}
				}
			}
			if len(enums) > 0 && op.N%2 == 0 {
				xt = enums[int(op.N/2)%len(enums)]
			} else if len(lists) > 0 {
				xt = lists[int(op.N/2)%len(lists)]
			}
		}
		xd := xt.TypeDescriptor()
		if op.Op == "ext-clear" {
			proto.ClearExtension(p.m, xt)
			am.Clear(xd)
			if proto.HasExtension(p.m, xt) {
				return "has: HasExtension is true right after ClearExtension"
			}
			return ""
		}
		switch {
		case xd.IsList():
			if xd.Message() != nil {
				return ""
			}
			v := scalarOfKind(r, xd)
			l := m.Mutable(xd).List()
			if op.M%4 == 0 {
				// the element NewElement hands out: the zero of the kind, for an enum its first declared value
				v = model.Scalar{Kind: xd.Kind()}
				if xd.Kind() == protoreflect.EnumKind {
					v.I = int64(xd.Enum().Values().Get(0).Number())
				}
				ne := l.NewElement()
				if got := model.FromValue(xd.Kind(), ne); got.String() != v.String() {
					return fmt.Sprintf("value: NewElement of the list of extension %s is %s, want %s", xd.FullName(), got.String(), v.String())
				}
				l.Append(ne)
			} else {
				l.Append(v.ToValue())
			}
			am.Append(xd, &model.AVal{S: v})
		case xd.IsMap():
			return ""
		case xd.Message() != nil:
			sub := am.MutableMsg(xd)
			rs := m.Mutable(xd).Message()
			if sf := pickFD(rs.Descriptor(), op.M, isSingularScalar); sf != nil {
				v := c28Value(r, sf, false)
				sub.SetScalar(sf, v)
				rs.Set(sf, v.ToValue())
			}
		default:
			v := scalarOfKind(r, xd)
			proto.SetExtension(p.m, xt, xt.InterfaceOf(v.ToValue()))
			am.SetScalar(xd, v)
			if !proto.HasExtension(p.m, xt) {
				return "has: HasExtension is false right after SetExtension"
			}
		}
	case "merge":
		// another pair, built by a short seeded history of its own
		o := &c28Pair{am: model.NewMsg(p.m.ProtoReflect().Descriptor()), m: newMsg()}
		for i := 0; i < 4; i++ {
			sub := &scn.Op{Op: []string{"set", "oneof-set", "list-append", "map-set", "mutable-msg", "set-msg-empty"}[r.Intn(6)], N: int64(r.Intn(1 << 16)), M: int64(r.Intn(1 << 16)), S: fmt.Sprint(r.U64() >> 1)}
			o.mutate(sub, newMsg)
		}
		p.am.Merge(o.am)
		proto.Merge(p.m, o.m)
	case "decode-oneof-multi":
		am, m = p.am, p.m.ProtoReflect()
		md = m.Descriptor()
		if md.Oneofs().Len() == 0 {
			return ""
		}
		od := md.Oneofs().Get(int(op.N) % md.Oneofs().Len())
		var scal []protoreflect.FieldDescriptor
		for i := 0; i < od.Fields().Len(); i++ {
			if f := od.Fields().Get(i); f.Message() == nil && f.Kind() != protoreflect.GroupKind {
				scal = append(scal, f)
			}
		}
		if len(scal) < 2 || od.IsSynthetic() {
			return ""
		}
		// wire input naming two or three members of the oneof: the last one wins
		var wire []byte
		n := 2 + r.Intn(2)
		// ... possibly with a record in between or at the end that carries the number of a member of this
		// oneof under a wire type that member does not accept: such a record names no member, it is an
		// unknown field, and the selection stays as it was
		mistypedAt := -1
		if r.Chance(1, 2) {
			mistypedAt = r.Intn(n + 1)
		}
		mistyped := func() {
			fd := od.Fields().Get(r.Intn(od.Fields().Len()))
			var rec []byte
			switch fd.Kind() {
			case protoreflect.Fixed32Kind, protoreflect.Sfixed32Kind, protoreflect.FloatKind, protoreflect.Fixed64Kind, protoreflect.Sfixed64Kind, protoreflect.DoubleKind,
				protoreflect.StringKind, protoreflect.BytesKind, protoreflect.MessageKind:
				rec = protowire.AppendTag(rec, fd.Number(), protowire.VarintType)
				rec = protowire.AppendVarint(rec, uint64(r.Intn(1000)))
			case protoreflect.GroupKind:
				return
			default:
				rec = protowire.AppendTag(rec, fd.Number(), protowire.Fixed32Type)
				rec = protowire.AppendFixed32(rec, uint32(r.Intn(1000)))
			}
			wire = append(wire, rec...)
			am.Unknown += string(rec)
		}
		for i := 0; i < n; i++ {
			if i == mistypedAt {
				mistyped()
			}
			fd := scal[r.Intn(len(scal))]
			v := c28Value(r, fd, false)
			wire = appendScalarField(wire, fd, v)
			am.SetScalar(fd, v)
		}
		if mistypedAt == n {
			mistyped()
		}
		if err := (proto.UnmarshalOptions{Merge: true, AllowPartial: true, Resolver: c28BinResolver()}).Unmarshal(wire, p.m); err != nil {
			return "oneof: binary input naming several members of one oneof was rejected: " + err.Error()
		}
	case "roundtrip-bin", "roundtrip-json", "roundtrip-text":
		if op.Op != "roundtrip-bin" && c28TextUnsafe(p.m.ProtoReflect().Descriptor(), 1) {
			return ""
		}
		fresh := newMsg()
		var err error
		switch op.Op {
		case "roundtrip-bin":
			var b []byte
			b, err = proto.MarshalOptions{AllowPartial: true}.Marshal(p.m)
			if err == nil {
				err = (proto.UnmarshalOptions{AllowPartial: true, Resolver: c28BinResolver()}).Unmarshal(b, fresh)
			}
		case "roundtrip-json":
			var b []byte
			// the output options must not change what a round trip preserves: unpopulated fields with
			// presence come out as null (or not at all) and stay unset; unpopulated fields without presence
			// come out as zero values or empty lists/maps, which populate nothing
			jo := protojson.MarshalOptions{AllowPartial: true, UseProtoNames: op.M&4 != 0, UseEnumNumbers: op.M&8 != 0}
			switch op.M % 4 {
			case 1:
				jo.EmitUnpopulated = true
			case 2:
				jo.EmitDefaultValues = true
			}
			if op.M&16 != 0 {
				jo.Multiline = true
			}
			b, err = jo.Marshal(p.m)
			if err == nil {
				err = (protojson.UnmarshalOptions{AllowPartial: true, Resolver: c28TextResolver()}).Unmarshal(b, fresh)
				stripUnknown(p.am) // JSON does not carry unknown fields
			}
		case "roundtrip-text":
			var b []byte
			b, err = prototext.MarshalOptions{AllowPartial: true, Multiline: op.M&1 != 0}.Marshal(p.m)
			if err == nil {
				err = (prototext.UnmarshalOptions{AllowPartial: true, Resolver: c28TextResolver()}).Unmarshal(b, fresh)
				stripUnknown(p.am)
			}
		}
		if err != nil {
			return "roundtrip: " + op.Op + " failed: " + err.Error()
		}
		p.m = fresh
		if aspect, det := compareWithModel(p.am, p.m.ProtoReflect()); aspect != "" {
			if aspect == "has" {
				aspect = "roundtrip"
			}
			return aspect + ": after " + op.Op + ": " + det
		}
	case "check-encoded":
		// implicit-presence zero values are never encoded; nothing unpopulated is encoded
		b, err := proto.MarshalOptions{AllowPartial: true}.Marshal(p.m)
		if err != nil {
			return ""
		}
		ukn := map[protowire.Number]bool{}
		for u := []byte(p.am.Unknown); len(u) > 0; {
			num, _, n := protowire.ConsumeField(u)
			if n < 0 {
				break
			}
			ukn[num] = true
			u = u[n:]
		}
		for len(b) > 0 {
			num, _, n := protowire.ConsumeField(b)
			if n < 0 {
				return "encoded-zero: Marshal output does not parse"
			}
			b = b[n:]
			if _, populated := p.am.Fields[num]; !populated && !ukn[num] {
				return fmt.Sprintf("encoded-zero: field %d is encoded although it is not populated (implicit-presence zero, or cleared field)", num)
			}
		}
	case "json-two-members", "text-two-members":
		am, m = p.am, p.m.ProtoReflect()
		md = m.Descriptor()
		if md.Oneofs().Len() == 0 {
			return ""
		}
		od := md.Oneofs().Get(int(op.N) % md.Oneofs().Len())
		// members whose value can be written down in both text codecs: scalars, enums (google.protobuf.NullValue
		// is written null in JSON, where null is that member's value and does select it), plain messages,
		// google.protobuf.Value (null as well)
		litOK := func(f protoreflect.FieldDescriptor) bool {
			switch f.Kind() {
			case protoreflect.GroupKind:
				return false
			case protoreflect.MessageKind:
				n := string(f.Message().FullName())
				return !strings.HasPrefix(n, "google.protobuf.") || n == "google.protobuf.Value"
			}
			return true
		}
		var scal []protoreflect.FieldDescriptor
		for i := 0; i < od.Fields().Len(); i++ {
			if f := od.Fields().Get(i); litOK(f) {
				scal = append(scal, f)
			}
		}
		if len(scal) < 2 || od.IsSynthetic() {
			return ""
		}
		shuffle(r, scal)
		// members that are written null come first in the choice half of the time: that is the special case
		for i, f := range scal {
			if (f.Enum() != nil && f.Enum().FullName() == "google.protobuf.NullValue" || f.Message() != nil && f.Message().FullName() == "google.protobuf.Value") && r.Bool() {
				scal[0], scal[i] = scal[i], scal[0]
				break
			}
		}
		a, b := scal[0], scal[1]
		if r.Bool() {
			a, b = b, a
		}
		lit := func(fd protoreflect.FieldDescriptor, json bool) string {
			switch fd.Kind() {
			case protoreflect.StringKind:
				return `"x"`
			case protoreflect.BytesKind:
				if json {
					return `"eA=="`
				}
				return `"x"`
			case protoreflect.BoolKind:
				return "true"
			case protoreflect.FloatKind, protoreflect.DoubleKind:
				return "1.5"
			case protoreflect.EnumKind:
				if fd.Enum().FullName() == "google.protobuf.NullValue" {
					if json {
						return "null"
					}
					return "NULL_VALUE"
				}
				v := fd.Enum().Values().Get(fd.Enum().Values().Len() - 1)
				if json {
					return `"` + string(v.Name()) + `"`
				}
				return string(v.Name())
			case protoreflect.MessageKind:
				if json && fd.Message().FullName() == "google.protobuf.Value" {
					return "null"
				}
				return "{}"
			}
			return "7"
		}
		// control: one member of each of two DIFFERENT oneofs is fine and must be accepted
		var other protoreflect.FieldDescriptor
		for i := 0; i < md.Oneofs().Len(); i++ {
			o2 := md.Oneofs().Get(i)
			if o2 == od || o2.IsSynthetic() {
				continue
			}
			for j := 0; j < o2.Fields().Len(); j++ {
				if f := o2.Fields().Get(j); f.Kind() == protoreflect.Uint32Kind || f.Kind() == protoreflect.StringKind || f.Kind() == protoreflect.BoolKind || f.Kind() == protoreflect.Uint64Kind {
					other = f
				}
			}
		}
		scratch := newMsg()
		var err error
		if other != nil && r.Chance(1, 3) {
			if op.Op == "json-two-members" {
				in := fmt.Sprintf(`{"%s": %s, "%s": %s}`, a.JSONName(), lit(a, true), other.JSONName(), lit(other, true))
				err = protojson.Unmarshal([]byte(in), scratch)
			} else {
				in := fmt.Sprintf("%s: %s\n%s: %s\n", a.TextName(), lit(a, false), other.TextName(), lit(other, false))
				err = prototext.Unmarshal([]byte(in), scratch)
			}
			if err != nil {
				return "oneof: " + op.Op + ": input naming one member of each of two different oneofs was rejected: " + err.Error()
			}
			if !scratch.ProtoReflect().Has(a) || !scratch.ProtoReflect().Has(other) {
				return "oneof: " + op.Op + ": members of two different oneofs: one of them is not populated after decoding"
			}
			return ""
		}
		// two members of the same oneof, adjacent or with a member of another oneof
		// (or, proto3, an optional field = synthetic oneof) in between: must be rejected
		mid := other
		if mid == nil {
			mid = pickFD(md, int64(seed), func(fd protoreflect.FieldDescriptor) bool {
				return fd.HasOptionalKeyword() && fd.ContainingOneof() != nil && fd.ContainingOneof().IsSynthetic() && (fd.Kind() == protoreflect.Uint32Kind || fd.Kind() == protoreflect.StringKind || fd.Kind() == protoreflect.BoolKind || fd.Kind() == protoreflect.Uint64Kind)
			})
		}
		interleave := mid != nil && r.Bool()
		if op.Op == "json-two-members" {
			in := fmt.Sprintf(`{"%s": %s, "%s": %s}`, a.JSONName(), lit(a, true), b.JSONName(), lit(b, true))
			if interleave {
				in = fmt.Sprintf(`{"%s": %s, "%s": %s, "%s": %s}`, a.JSONName(), lit(a, true), mid.JSONName(), lit(mid, true), b.JSONName(), lit(b, true))
			}
			err = protojson.Unmarshal([]byte(in), scratch)
		} else {
			in := fmt.Sprintf("%s: %s\n%s: %s\n", a.TextName(), lit(a, false), b.TextName(), lit(b, false))
			if interleave {
				in = fmt.Sprintf("%s: %s\n%s: %s\n%s: %s\n", a.TextName(), lit(a, false), mid.TextName(), lit(mid, false), b.TextName(), lit(b, false))
			}
			err = prototext.Unmarshal([]byte(in), scratch)
		}
		if err == nil {
			return "multi-member-accepted: " + op.Op + ": input naming two members of oneof " + string(od.Name()) + " was accepted"
		}
	case "presence-sweep":
		// every field on its own: set it on a fresh message, compare the whole
		// observation, clear it, compare again (reaches every presence-bitmap word)
		rmd := p.m.ProtoReflect().Descriptor()
		for i := 0; i < rmd.Fields().Len(); i++ {
			fd := rmd.Fields().Get(i)
			if fd.IsWeak() {
				continue
			}
			q := &c28Pair{am: model.NewMsg(rmd), m: newMsg()}
			qm := q.m.ProtoReflect()
			switch {
			case fd.IsList():
				if fd.Message() != nil {
					l := qm.Mutable(fd).List()
					l.Append(l.NewElement())
					q.am.Append(fd, &model.AVal{M: model.NewMsg(fd.Message())})
				} else {
					v := scalarOfKind(r, fd)
					qm.Mutable(fd).List().Append(v.ToValue())
					q.am.Append(fd, &model.AVal{S: v})
				}
			case fd.IsMap():
				k := scalarOfKind(r, fd.MapKey())
				if fd.MapValue().Message() != nil {
					mp := qm.Mutable(fd).Map()
					mp.Set(k.ToValue().MapKey(), mp.NewValue())
					q.am.MapSet(fd, k, &model.AVal{M: model.NewMsg(fd.MapValue().Message())})
				} else {
					v := scalarOfKind(r, fd.MapValue())
					qm.Mutable(fd).Map().Set(k.ToValue().MapKey(), v.ToValue())
					q.am.MapSet(fd, k, &model.AVal{S: v})
				}
			case fd.Message() != nil:
				qm.Mutable(fd)
				q.am.MutableMsg(fd)
			default:
				v := c28Value(r, fd, i%3 == 0)
				qm.Set(fd, v.ToValue())
				q.am.SetScalar(fd, v)
			}
			if aspect, det := compareWithModel(q.am, qm); aspect != "" {
				return fmt.Sprintf("%s: presence sweep, only field %s set: %s", aspect, fd.Name(), det)
			}
			qm.Clear(fd)
			q.am.Clear(fd)
			if aspect, det := compareWithModel(q.am, qm); aspect != "" {
				return fmt.Sprintf("%s: presence sweep, field %s set then cleared: %s", aspect, fd.Name(), det)
			}
		}
		// the other way round: everything outside oneofs populated, then each field cleared on its own and
		// populated again (a Clear must not touch a neighbour)
		{
			q := &c28Pair{am: model.NewMsg(rmd), m: newMsg()}
			qm := q.m.ProtoReflect()
			setOne := func(fd protoreflect.FieldDescriptor, i int) {
				switch {
				case fd.IsList():
					if fd.Message() != nil {
						l := qm.Mutable(fd).List()
						l.Append(l.NewElement())
						q.am.Append(fd, &model.AVal{M: model.NewMsg(fd.Message())})
					} else {
						v := scalarOfKind(r, fd)
						qm.Mutable(fd).List().Append(v.ToValue())
						q.am.Append(fd, &model.AVal{S: v})
					}
				case fd.IsMap():
					if fd.MapValue().Message() != nil {
						return
					}
					k, v := scalarOfKind(r, fd.MapKey()), scalarOfKind(r, fd.MapValue())
					qm.Mutable(fd).Map().Set(k.ToValue().MapKey(), v.ToValue())
					q.am.MapSet(fd, k, &model.AVal{S: v})
				case fd.Message() != nil:
					qm.Mutable(fd)
					q.am.MutableMsg(fd)
				default:
					v := c28Value(r, fd, i%4 == 0)
					qm.Set(fd, v.ToValue())
					q.am.SetScalar(fd, v)
				}
			}
			var all []protoreflect.FieldDescriptor
			for i := 0; i < rmd.Fields().Len(); i++ {
				if fd := rmd.Fields().Get(i); !fd.IsWeak() && fd.ContainingOneof() == nil {
					all = append(all, fd)
					setOne(fd, i)
				}
			}
			if aspect, det := compareWithModel(q.am, qm); aspect != "" {
				return fmt.Sprintf("%s: presence sweep, every field outside oneofs populated: %s", aspect, det)
			}
			// (a window of neighbouring fields is cleared in turn; presence of every field is looked at each time)
			every := all
			if len(all) > 24 {
				lo := r.Intn(len(all) - 24)
				all = all[lo : lo+24]
			}
			for i, fd := range all {
				qm.Clear(fd)
				q.am.Clear(fd)
				// (presence of every field after every single Clear; the full comparison once at the end)
				for _, o := range every {
					if qm.Has(o) != q.am.Has(o) {
						return fmt.Sprintf("has: presence sweep, every field populated, then only %s cleared: Has(%s) is %v", fd.Name(), o.Name(), qm.Has(o))
					}
				}
				setOne(fd, i+1)
			}
			if aspect, det := compareWithModel(q.am, qm); aspect != "" {
				return fmt.Sprintf("%s: presence sweep, every field cleared and populated again in turn: %s", aspect, det)
			}
		}
	case "range-scrub":
		// Range with a callback that clears some of the fields it is shown (the contract allows mutating
		// the current field): every field populated at the start is still shown exactly once
		before := map[protoreflect.FieldNumber]bool{}
		var order []protoreflect.FieldNumber
		m.Range(func(fd protoreflect.FieldDescriptor, _ protoreflect.Value) bool {
			before[fd.Number()] = true
			return true
		})
		if len(before) == 0 {
			return ""
		}
		mask := r.U64()
		if op.M%3 == 0 {
			mask = ^uint64(0) // clear everything
		}
		seen := map[protoreflect.FieldNumber]int{}
		var cleared []protoreflect.FieldDescriptor
		m.Range(func(fd protoreflect.FieldDescriptor, _ protoreflect.Value) bool {
			seen[fd.Number()]++
			order = append(order, fd.Number())
			if mask>>(uint(fd.Number())%64)&1 == 1 { // by number, not by position: the order of visits is not part of the state
				m.Clear(fd)
				cleared = append(cleared, fd)
			}
			return true
		})
		for _, fd := range cleared {
			am.Clear(fd)
		}
		for n := range before {
			if seen[n] != 1 {
				return fmt.Sprintf("range: Range with a callback that clears the fields it is shown visited field %d %d times (%d fields were populated, %d visits in all)", n, seen[n], len(before), len(order))
			}
		}
		if len(seen) != len(before) {
			return fmt.Sprintf("range: Range with a clearing callback visited %d distinct fields, %d were populated", len(seen), len(before))
		}
	case "emptied-view":
		// a list or map that was written to and emptied again is unpopulated: Has false, Range skips it,
		// Get hands out an empty read-only view, and a write through that view panics and stays invisible
		fd := pickFD(md, op.N, func(fd protoreflect.FieldDescriptor) bool { return (fd.IsList() || fd.IsMap()) && !am.Has(fd) })
		if fd == nil {
			return ""
		}
		if fd.IsList() {
			l := m.Mutable(fd).List()
			for i, k := 0, 1+r.Intn(3); i < k; i++ {
				if fd.Message() != nil {
					l.Append(l.NewElement())
				} else {
					l.Append(scalarOfKind(r, fd).ToValue())
				}
			}
			if r.Bool() {
				l.Truncate(0)
			} else {
				for l.Len() > 0 {
					l.Truncate(l.Len() - 1)
				}
			}
		} else {
			mp := m.Mutable(fd).Map()
			for i, k := 0, 1+r.Intn(3); i < k; i++ {
				key := scalarOfKind(r, fd.MapKey()).ToValue().MapKey()
				if fd.MapValue().Message() != nil {
					mp.Set(key, mp.NewValue())
				} else {
					mp.Set(key, scalarOfKind(r, fd.MapValue()).ToValue())
				}
			}
			var ks []protoreflect.MapKey
			mp.Range(func(k protoreflect.MapKey, _ protoreflect.Value) bool { ks = append(ks, k); return true })
			for _, k := range ks {
				mp.Clear(k)
			}
		}
		if m.Has(fd) {
			return fmt.Sprintf("has: field %s was written to and emptied again, Has is still true", fd.Name())
		}
		v := m.Get(fd)
		if (fd.IsList() && (v.List().IsValid() || v.List().Len() != 0)) || (fd.IsMap() && (v.Map().IsValid() || v.Map().Len() != 0)) {
			return fmt.Sprintf("value: Get for field %s (written to and emptied again, Has false) returned a view that reports IsValid or is not empty", fd.Name())
		}
		panicked := sim.Protect(func() {
			if fd.IsList() {
				if fd.Message() != nil {
					v.List().Append(v.List().NewElement())
				} else {
					v.List().Append(scalarOfKind(r, fd).ToValue())
				}
			} else if fd.MapValue().Message() != nil {
				v.Map().Set(scalarOfKind(r, fd.MapKey()).ToValue().MapKey(), v.Map().NewValue())
			} else {
				v.Map().Set(scalarOfKind(r, fd.MapKey()).ToValue().MapKey(), scalarOfKind(r, fd.MapValue()).ToValue())
			}
		})
		if panicked == "" {
			return fmt.Sprintf("value: writing through the view returned by Get for emptied field %s did not panic", fd.Name())
		}
		visited := false
		m.Range(func(f protoreflect.FieldDescriptor, _ protoreflect.Value) bool {
			if f.Number() == fd.Number() {
				visited = true
			}
			return true
		})
		if m.Has(fd) || visited {
			return fmt.Sprintf("has: a refused write through the read-only view of field %s became visible (Has %v, Range visits it: %v)", fd.Name(), m.Has(fd), visited)
		}
	case "readonly-write":
		// Get of an unpopulated composite returns an empty read-only view: writing through it must panic
		fd := pickFD(md, op.N, func(fd protoreflect.FieldDescriptor) bool {
			return (isSingularMsg(fd) || fd.IsList() || fd.IsMap()) && !am.Has(fd)
		})
		if fd == nil {
			return ""
		}
		v := m.Get(fd)
		valid := false
		switch {
		case fd.IsList():
			valid = v.List().IsValid()
		case fd.IsMap():
			valid = v.Map().IsValid()
		default:
			valid = v.Message().IsValid()
		}
		if valid {
			return fmt.Sprintf("value: Get for unpopulated field %s returned a value that reports IsValid (a writable view) although Has is false", fd.Name())
		}
		panicked := sim.Protect(func() {
			switch {
			case fd.IsList():
				if fd.Message() != nil {
					v.List().Append(v.List().NewElement()) // NewElement on a read-only list is allowed; Append is not
					return
				}
				v.List().Append(scalarOfKind(r, fd).ToValue())
			case fd.IsMap():
				if fd.MapValue().Message() != nil {
					return
				}
				v.Map().Set(scalarOfKind(r, fd.MapKey()).ToValue().MapKey(), scalarOfKind(r, fd.MapValue()).ToValue())
			default:
				sf := pickFD(fd.Message(), op.M, isSingularScalar)
				if sf == nil {
					return
				}
				v.Message().Set(sf, scalarOfKind(r, sf).ToValue())
			}
		})
		wrote := false
		switch {
		case fd.IsList():
			wrote = true
		case fd.IsMap():
			wrote = fd.MapValue().Message() == nil
		default:
			wrote = pickFD(fd.Message(), op.M, isSingularScalar) != nil
		}
		if wrote && panicked == "" {
			return fmt.Sprintf("value: writing through the read-only value returned by Get for unpopulated field %s did not panic", fd.Name())
		}
	}
	return ""
}

func appendScalarField(b []byte, fd protoreflect.FieldDescriptor, v model.Scalar) []byte {
	num := fd.Number()
	switch fd.Kind() {
	case protoreflect.BoolKind, protoreflect.EnumKind, protoreflect.Int32Kind, protoreflect.Int64Kind:
		b = protowire.AppendTag(b, num, protowire.VarintType)
		return protowire.AppendVarint(b, uint64(v.I))
	case protoreflect.Uint32Kind, protoreflect.Uint64Kind:
		b = protowire.AppendTag(b, num, protowire.VarintType)
		return protowire.AppendVarint(b, v.U)
	case protoreflect.Sint32Kind, protoreflect.Sint64Kind:
		b = protowire.AppendTag(b, num, protowire.VarintType)
		return protowire.AppendVarint(b, protowire.EncodeZigZag(v.I))
	case protoreflect.Fixed32Kind:
		b = protowire.AppendTag(b, num, protowire.Fixed32Type)
		return protowire.AppendFixed32(b, uint32(v.U))
	case protoreflect.Sfixed32Kind:
		b = protowire.AppendTag(b, num, protowire.Fixed32Type)
		return protowire.AppendFixed32(b, uint32(v.I))
	case protoreflect.FloatKind:
		b = protowire.AppendTag(b, num, protowire.Fixed32Type)
		return protowire.AppendFixed32(b, mathFloat32bits(float32(v.F)))
	case protoreflect.Fixed64Kind:
		b = protowire.AppendTag(b, num, protowire.Fixed64Type)
		return protowire.AppendFixed64(b, v.U)
	case protoreflect.Sfixed64Kind:
		b = protowire.AppendTag(b, num, protowire.Fixed64Type)
		return protowire.AppendFixed64(b, uint64(v.I))
	case protoreflect.DoubleKind:
		b = protowire.AppendTag(b, num, protowire.Fixed64Type)
		return protowire.AppendFixed64(b, mathFloat64bits(v.F))
	case protoreflect.StringKind, protoreflect.BytesKind:
		b = protowire.AppendTag(b, num, protowire.BytesType)
		return protowire.AppendBytes(b, []byte(v.S))
	}
	return b
}

func mathFloat32bits(f float32) uint32 { return math.Float32bits(f) }
func mathFloat64bits(f float64) uint64 { return math.Float64bits(f) }

// c28CheckSynth compares what the built descriptors say about every field of a synthetic file with
// what the generator declared (its own resolution of the feature settings it wrote).
func c28CheckSynth(spec *gen.SynthSpec, main protoreflect.MessageDescriptor, builder int) (aspect, bad string) {
	bname := []string{"reflect/protodesc", "internal/filedesc"}[builder&1]
	var walk func(md protoreflect.MessageDescriptor)
	seen := map[protoreflect.FullName]bool{}
	walk = func(md protoreflect.MessageDescriptor) {
		if seen[md.FullName()] || bad != "" {
			return
		}
		seen[md.FullName()] = true
		fds := md.Fields()
		for i := 0; i < fds.Len() && bad == ""; i++ {
			fd := fds.Get(i)
			if sf := spec.Fields[fd.FullName()]; sf != nil {
				where := fmt.Sprintf("synthetic editions file seed %d built by %s; file features%s; field %s declares%s", spec.Seed, bname, spec.FileDecl, fd.FullName(), sf.Declared)
				switch {
				case fd.HasPresence() != sf.Presence:
					aspect, bad = "has", fmt.Sprintf("%s: HasPresence()=%v, want %v", where, fd.HasPresence(), sf.Presence)
				case (fd.Cardinality() == protoreflect.Required) != sf.Required:
					aspect, bad = "has", fmt.Sprintf("%s: Cardinality()=%v, required wanted: %v", where, fd.Cardinality(), sf.Required)
				}
				// (packed-ness, delimited encoding and enum closedness are also declared in the spec; they
				// belong to the feature-resolution property C38, which is not claimed, and are not compared)
			}
			if cm := fd.Message(); cm != nil {
				walk(cm)
			}
		}
	}
	walk(main)
	return
}

// c28Rebuilt is set while a scenario runs dynamicpb over protodesc-rebuilt descriptors: decoders then
// resolve extensions (and Any) against types over those descriptors, as such a program would, instead
// of against the generated types of the global registry, which extend other descriptor instances.
var c28Rebuilt bool

func c28BinResolver() interface {
	FindExtensionByName(field protoreflect.FullName) (protoreflect.ExtensionType, error)
	FindExtensionByNumber(message protoreflect.FullName, field protoreflect.FieldNumber) (protoreflect.ExtensionType, error)
} {
	if c28Rebuilt {
		return gen.RebuiltTypes()
	}
	return protoregistry.GlobalTypes
}

func c28TextResolver() interface {
	protoregistry.MessageTypeResolver
	protoregistry.ExtensionTypeResolver
} {
	if c28Rebuilt {
		return gen.RebuiltTypes()
	}
	return protoregistry.GlobalTypes
}

func (w c28) report(aspect string) bool { return w.aspects == nil || w.aspects[aspect] }

func (w c28) Run(s *scn.Scn, x *sim.Exec) {
	if len(s.Objects) == 0 {
		return
	}
	typ := s.Objects[0].Type
	dyn := s.P["dynamic"] >= 1
	var rootMD protoreflect.MessageDescriptor
	if typ == "synth" {
		// a synthetic editions file with random feature settings, built by one of the two descriptor builders
		spec, md, err := gen.Synth(s.Objects[0].Seed, int(s.P["synth_builder"]))
		if err != nil || md == nil {
			// refusing the file is not a matter of the claimed properties: counted, scenario skipped
			x.Probe("synthetic-file-refused-by-builder", 1)
			return
		}
		rootMD, dyn = md, true
		x.Probe("synthetic-editions-file-scenarios", 1)
		if aspect, bad := c28CheckSynth(spec, md, int(s.P["synth_builder"])); bad != "" {
			if w.report(aspect) {
				x.Fail("model-mismatch:"+aspect, "%s", bad)
			}
			return
		}
	} else {
		rootMD = gen.Type(typ).Descriptor()
	}
	if s.P["dynamic"] == 2 && typ != "synth" {
		// dynamicpb over the descriptor as reflect/protodesc rebuilds it from the FileDescriptorProto
		if md := gen.Rebuilt(typ); md != nil {
			rootMD = md
			c28Rebuilt = true
			defer func() { c28Rebuilt = false }()
			x.Probe("protodesc-rebuilt-descriptor-scenarios", 1)
		}
	}
	newMsg := func() proto.Message {
		if dyn {
			return dynamicpb.NewMessage(rootMD)
		}
		return gen.NewMsg(typ)
	}
	p := &c28Pair{am: model.NewMsg(rootMD), m: newMsg()}
	c28Focus = c28MakeFocus(rootMD, uint64(s.P["focus"]))
	defer func() { c28Focus = nil }()
	muts, oneofOps, zeroSets := 0, 0, 0
	otherAspects := 0
	for pi := range s.Phases {
		ph := &s.Phases[pi]
		if strings.HasPrefix(ph.Name, "mutations") {
			x.RunPhase(pi, func(client, opi int, op *scn.Op) sim.OpResult {
				msg := p.mutate(op, newMsg)
				muts++
				if strings.HasPrefix(op.Op, "oneof") || strings.Contains(op.Op, "two-members") || op.Op == "decode-oneof-multi" {
					oneofOps++
				}
				if op.Op == "set-zero" {
					zeroSets++
				}
				if msg == "" {
					if aspect, det := w.compareFor(p.am, p.m.ProtoReflect()); aspect != "" {
						msg = aspect + ": after " + op.Op + ": " + det
					}
				}
				if msg != "" {
					aspect, det, _ := strings.Cut(msg, ": ")
					if w.report(aspect) {
						return sim.OpResult{Bad: "model-mismatch:" + aspect + ": " + det}
					}
					otherAspects++
				}
				return sim.OpResult{}
			})
			if x.Failed() {
				return
			}
			if otherAspects > 0 {
				// a mismatch in an aspect this property does not speak about: the pair
				// is out of step, stop here (the property that owns the aspect reports it)
				x.Probe("stopped-on-mismatch-owned-by-another-property", 1)
				return
			}
			continue
		}
		// concurrent non-mutating calls; expectations come from the (now read-only) model
		want := p.am.Lines()
		wantPop := p.am.Populated()
		root := p.m.ProtoReflect()
		md := root.Descriptor()
		logs := x.RunPhase(pi, func(client, opi int, op *scn.Op) sim.OpResult {
			bad := func(aspect, det string) sim.OpResult {
				if w.report(aspect) {
					return sim.OpResult{Bad: "model-mismatch:" + aspect + ": concurrent " + op.Op + ": " + det}
				}
				return sim.OpResult{}
			}
			switch op.Op {
			case "render":
				got := realLines(root)
				for i := range want {
					if i >= len(got) || got[i] != want[i] {
						aspect := "value"
						if want[i][0] == 'o' {
							aspect = "oneof"
						}
						g := "<missing>"
						if i < len(got) {
							g = got[i]
							ai, ri := strings.IndexByte(want[i], ':'), strings.IndexByte(g, ':')
							if want[i][0] != 'o' && want[i][0] != 'u' && ai > 0 && ri > 0 && ai+1 < len(want[i]) && ri+1 < len(g) && want[i][ai+1] != g[ri+1] {
								aspect = "has"
							}
						}
						return bad(aspect, fmt.Sprintf("model says %q, message says %q", trunc(want[i], 200), trunc(g, 200)))
					}
				}
				return sim.OpResult{Digest: sim.HashStr(strings.Join(got, "\n"))}
			case "range":
				seen := map[int]int{}
				root.Range(func(fd protoreflect.FieldDescriptor, _ protoreflect.Value) bool {
					seen[int(fd.Number())]++
					return true
				})
				if len(seen) != len(wantPop) {
					return bad("range", fmt.Sprintf("Range visited %d fields, %d are populated", len(seen), len(wantPop)))
				}
				for _, n := range wantPop {
					if seen[n] != 1 {
						return bad("range", fmt.Sprintf("Range visited field %d %d times", n, seen[n]))
					}
				}
				// a callback that says stop is not called again: the message's Range and the Range of every
				// populated map field
				if len(wantPop) >= 2 {
					stopAt, calls := 1+int(op.N)%(len(wantPop)-1), 0
					root.Range(func(protoreflect.FieldDescriptor, protoreflect.Value) bool {
						calls++
						return calls < stopAt
					})
					if calls != stopAt {
						return bad("range", fmt.Sprintf("Range called the callback %d times although it returned false at call %d (%d fields populated)", calls, stopAt, len(wantPop)))
					}
				}
				var stopBad string
				root.Range(func(fd protoreflect.FieldDescriptor, v protoreflect.Value) bool {
					if fd.IsMap() && v.Map().Len() >= 2 {
						stopAt, calls := 1+int(op.N)%(v.Map().Len()-1), 0
						v.Map().Range(func(protoreflect.MapKey, protoreflect.Value) bool {
							calls++
							return calls < stopAt
						})
						if calls != stopAt {
							stopBad = fmt.Sprintf("Map.Range of field %s called the callback %d times although it returned false at call %d (%d entries)", fd.Name(), calls, stopAt, v.Map().Len())
							return false
						}
					}
					return true
				})
				if stopBad != "" {
					return bad("range", stopBad)
				}
				return sim.OpResult{Digest: uint64(len(seen))}
			case "has", "get", "len":
				if md.Fields().Len() == 0 {
					return sim.OpResult{}
				}
				fd := md.Fields().Get(int(op.N) % md.Fields().Len())
				if fd.IsWeak() {
					return sim.OpResult{}
				}
				has := root.Has(fd)
				if has != p.am.Has(fd) {
					return bad("has", fmt.Sprintf("Has(%s) = %v, model says %v", fd.Name(), has, p.am.Has(fd)))
				}
				var b strings.Builder
				renderRealField(&b, root, fd)
				return sim.OpResult{Digest: sim.HashStr(b.String())}
			case "which":
				if md.Oneofs().Len() == 0 {
					return sim.OpResult{}
				}
				od := md.Oneofs().Get(int(op.N) % md.Oneofs().Len())
				n := protoreflect.FieldNumber(0)
				if wf := root.WhichOneof(od); wf != nil {
					n = wf.Number()
					if !root.Has(wf) {
						return bad("oneof", fmt.Sprintf("WhichOneof(%s) names %s but Has says it is not populated", od.Name(), wf.Name()))
					}
				}
				if n != p.am.WhichOneof(od) {
					return bad("oneof", fmt.Sprintf("WhichOneof(%s) = %d, model says %d", od.Name(), n, p.am.WhichOneof(od)))
				}
				cnt := 0
				for i := 0; i < od.Fields().Len(); i++ {
					if root.Has(od.Fields().Get(i)) {
						cnt++
					}
				}
				if cnt > 1 {
					return bad("oneof", fmt.Sprintf("%d members of oneof %s are populated", cnt, od.Name()))
				}
				return sim.OpResult{Digest: uint64(n)}
			case "unknown":
				if string(root.GetUnknown()) != p.am.Unknown {
					return bad("unknown", "GetUnknown differs from the model's unknown bytes")
				}
			case "descriptor":
				if root.Descriptor().FullName() != md.FullName() || !root.IsValid() {
					return bad("value", "Descriptor/IsValid")
				}
				// the declared presence discipline, as the descriptor reports it vs the model's own reading
				if fd := pickFD(md, op.N, func(protoreflect.FieldDescriptor) bool { return true }); fd != nil {
					if fd.HasPresence() != model.ExplicitPresence(fd) {
						return bad("has", fmt.Sprintf("descriptor of field %s reports HasPresence=%v, its declaration says %v", fd.FullName(), fd.HasPresence(), model.ExplicitPresence(fd)))
					}
				}
			}
			return sim.OpResult{}
		})
		if x.Failed() {
			return
		}
		x.CompareWithDry(pi, logs)
		if len(ph.Clients) > 1 {
			x.Probe("concurrent-read-phases", 1)
		}
	}
	x.Probe("mutations", int64(muts))
	x.Probe("oneof-operations", int64(oneofOps))
	x.Probe("zero-value-sets", int64(zeroSets))
	if dyn {
		x.Probe("dynamicpb-scenarios", 1)
	}
	shape := typ + fmt.Sprint(dyn, s.Objects[0].Seed, s.P["synth_builder"])
	for _, ph := range s.Phases {
		for _, c := range ph.Clients {
			for _, op := range c {
				shape += "," + op.Op
			}
			shape += "|"
		}
	}
	x.Key(sim.HashStr(shape))
}
