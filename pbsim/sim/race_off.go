//go:build !race

package sim

const RaceEnabled = false

func raceErrors() int { return 0 }
