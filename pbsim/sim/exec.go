// Package sim is the harness side of pbsim: scenario execution under the
// scheduler, outcome collection, and the worker main loop.
package sim

import (
	"fmt"
	"runtime/debug"
	"sort"
	"strings"
	"sync"

	"google.golang.org/protobuf/internal/simcore"
	"google.golang.org/protobuf/zverifsim/scn"
)

// Workload is one property's scenario generator, executor and oracle.
type Workload interface {
	ID() string
	// Gen draws a scenario from r. tags are the build tags of this binary.
	Gen(r *Rng, tier string) *scn.Scn
	// Run executes s and reports through x.
	Run(s *scn.Scn, x *Exec)
}

var workloads = map[string]Workload{}

func Register(w Workload) { workloads[w.ID()] = w }

// Exec is the execution context of one scenario.
type Exec struct {
	Scn       *scn.Scn
	Out       *scn.Outcome
	Replay    bool // follow the tapes stored in the scenario
	Dry       bool // sequential dry run (no pre-emption), used to size PCT
	KeepTrace bool
	Tapes     [][]scn.Decision // recorded per phase
	PhaseStep []int64          // steps per phase (from the dry run, if any)
	// DryLogs are the per-phase client logs of the sequential dry run; the
	// scheduled run compares its results against them (CompareWithDry).
	DryLogs [][]ClientLog
	AllLogs [][]ClientLog // logs of this execution, per phase
	phaseNo int
}

func NewExec(s *scn.Scn) *Exec {
	return &Exec{Scn: s, Out: &scn.Outcome{Faults: map[string]int64{}, Probes: map[string]int64{}}}
}

// Fail records a violation (the first one wins). Clients may call it; the
// scheduler serialises them, which the race detector cannot see, so neither
// function is instrumented (they touch no map and no memory of the code under test).
//
//go:norace
func (x *Exec) Fail(class, format string, args ...any) {
	if x.Out.Violation == nil {
		x.Out.Violation = &scn.Violation{Class: class, Detail: fmt.Sprintf(format, args...)}
	}
}

//go:norace
func (x *Exec) Failed() bool { return x.Out.Violation != nil }

// Fault counts a fault that actually fired.
func (x *Exec) Fault(kind string) { x.Out.Faults[kind]++ }

func (x *Exec) Probe(name string, n int64) {
	if n != 0 {
		x.Out.Probes[name] += n
	}
}

// Key registers a distinct-non-trivial-case key.
func (x *Exec) Key(k uint64) { x.Out.Keys = append(x.Out.Keys, k) }

func (x *Exec) Tracef(format string, args ...any) {
	if x.KeepTrace {
		x.Out.Trace = append(x.Out.Trace, fmt.Sprintf(format, args...))
	}
}

// OpResult is what a client operation returns to the executor.
type OpResult struct {
	Digest  uint64
	Text    string // optional, for traces
	Relaxed bool   // digest is not comparable with the sequential baseline
	Bad     string // set by the operation itself when an inline invariant failed ("class: detail")
}

// ClientLog is the private log of one client in a phase.
type ClientLog struct {
	Results []OpResult
	Panic   string
	PanicOp int
}

// RunPhase executes phase pi: every client runs its script as a goroutine
// under the scheduler. fn is called for every operation; it must only touch
// client-private harness state besides the system under test.
func (x *Exec) RunPhase(pi int, fn func(client, opi int, op *scn.Op) OpResult) []ClientLog {
	ph := &x.Scn.Phases[pi]
	n := len(ph.Clients)
	logs := make([]ClientLog, n)
	if n == 0 {
		x.Tapes = append(x.Tapes, nil)
		return logs
	}
	cfg := simcore.Config{Clients: n, MaxSteps: 2_000_000, KeepTrace: x.KeepTrace}
	kind := ph.Sched.Kind
	if x.Replay || x.Dry || kind == "" {
		kind = "tape"
	}
	switch kind {
	case "tape":
		cfg.Strategy = simcore.StratTape
		if !x.Dry {
			for _, d := range ph.Tape {
				cfg.Tape = append(cfg.Tape, simcore.Decision{CP: d.CP, To: d.To})
			}
		}
	case "random":
		cfg.Strategy = simcore.StratRandom
		cfg.StayPerm = ph.Sched.Stay
		cfg.SiteBias = ph.Sched.SiteBias
		cfg.Seed = ph.Sched.Seed
	case "pct":
		cfg.Strategy = simcore.StratPCT
		cfg.PCTDepth = ph.Sched.Depth
		cfg.Seed = ph.Sched.Seed
		if pi < len(x.PhaseStep) {
			cfg.PCTSteps = int(x.PhaseStep[pi])
		} else {
			ops := 0
			for _, c := range ph.Clients {
				ops += len(c)
			}
			cfg.PCTSteps = ops * 40
		}
	}
	var wg sync.WaitGroup
	simcore.Begin(cfg)
	for ci := 0; ci < n; ci++ {
		wg.Add(1)
		go func(ci int) {
			defer wg.Done()
			simcore.Enter(ci)
			lg := &logs[ci]
			ops := ph.Clients[ci]
			lg.Results = make([]OpResult, 0, len(ops))
			for oi := range ops {
				simcore.OpStart(oi)
				r, p := safeOp(fn, ci, oi, &ops[oi])
				if p != "" {
					lg.Panic = p
					lg.PanicOp = oi
					break
				}
				lg.Results = append(lg.Results, r)
				simcore.Digest(r.Digest)
			}
			simcore.Exit(ci)
		}(ci)
	}
	wg.Wait()
	st := simcore.End()
	x.Out.Steps += st.Steps
	x.Out.Switches += st.Switches
	x.Out.SwitchIn += st.SwitchInOp
	x.Out.SigHash = Mix(x.Out.SigHash, st.SigHash)
	x.Out.TraceHash = Mix(x.Out.TraceHash, st.TraceHash)
	x.Probe("cas-lost", st.CASFail)
	x.Probe("same-addr-cas-by-two-clients", st.SameAddrCAS)
	x.Probe("once-contended", st.OnceContended)
	x.Probe("lock-parked", st.LockContended)
	if st.SwitchInOp > 0 {
		x.Fault("sched-switch")
		x.Out.Faults["sched-switch"] += st.SwitchInOp - 1
	}
	tape := make([]scn.Decision, len(st.Tape))
	for i, d := range st.Tape {
		tape[i] = scn.Decision{CP: d.CP, To: d.To}
	}
	x.Tapes = append(x.Tapes, tape)
	if x.Dry {
		x.PhaseStep = append(x.PhaseStep, st.Steps)
	}
	if x.KeepTrace {
		for _, t := range st.Trace {
			x.Out.Trace = append(x.Out.Trace, fmt.Sprintf("phase %d step %d: client %d -> %d at %s (op %d)", pi, t.Step, t.From, t.To, t.Kind, t.Op))
		}
	}
	x.AllLogs = append(x.AllLogs, logs)
	for ci := range logs {
		for oi, r := range logs[ci].Results {
			if r.Bad != "" {
				cls, det := r.Bad, r.Bad
				if i := strings.Index(r.Bad, ": "); i > 0 {
					cls, det = r.Bad[:i], r.Bad[i+2:]
				}
				x.Fail(cls, "phase %d client %d op %d (%s): %s", pi, ci, oi, ph.Clients[ci][oi].Op, det)
			}
		}
	}
	for ci := range logs {
		if logs[ci].Panic != "" {
			x.Fail("panic:"+panicClass(logs[ci].Panic), "phase %d client %d op %d (%s) panicked: %s", pi, ci, logs[ci].PanicOp, ph.Clients[ci][logs[ci].PanicOp].Op, logs[ci].Panic)
		}
	}
	if x.KeepTrace {
		for ci := range logs {
			for oi, r := range logs[ci].Results {
				x.Out.Trace = append(x.Out.Trace, fmt.Sprintf("phase %d client %d op %d %s: digest %016x %s", pi, ci, oi, ph.Clients[ci][oi].Op, r.Digest, r.Text))
			}
		}
	}
	return logs
}

func safeOp(fn func(client, opi int, op *scn.Op) OpResult, ci, oi int, op *scn.Op) (r OpResult, p string) {
	defer func() {
		if e := recover(); e != nil {
			p = fmt.Sprintf("%v\n%s", e, trimStack(string(debug.Stack())))
		}
	}()
	return fn(ci, oi, op), ""
}

// Protect runs f and converts a panic into a string.
func Protect(f func()) (p string) {
	defer func() {
		if e := recover(); e != nil {
			p = fmt.Sprintf("%v\n%s", e, trimStack(string(debug.Stack())))
		}
	}()
	f()
	return ""
}

func trimStack(s string) string {
	lines := strings.Split(s, "\n")
	if len(lines) > 40 {
		lines = lines[:40]
	}
	return strings.Join(lines, "\n")
}

// panicClass reduces a panic text to a stable class: the first line without
// addresses and numbers.
func panicClass(p string) string {
	line := p
	if i := strings.IndexByte(line, '\n'); i >= 0 {
		line = line[:i]
	}
	var b strings.Builder
	for _, r := range line {
		if r >= '0' && r <= '9' {
			continue
		}
		b.WriteRune(r)
	}
	s := b.String()
	if len(s) > 80 {
		s = s[:80]
	}
	return s
}

// CompareWithDry checks that every non-relaxed operation result of phase pi
// equals the result the same operation produced in the sequential dry run.
func (x *Exec) CompareWithDry(pi int, logs []ClientLog) {
	if x.Dry || pi >= len(x.DryLogs) {
		return
	}
	dry := x.DryLogs[pi]
	ph := &x.Scn.Phases[pi]
	for ci := range logs {
		if ci >= len(dry) {
			break
		}
		for oi, r := range logs[ci].Results {
			if oi >= len(dry[ci].Results) || r.Relaxed {
				continue
			}
			if d := dry[ci].Results[oi]; d.Digest != r.Digest {
				x.Fail("I2:"+ph.Clients[ci][oi].Op, "phase %d client %d op %d (%s): result under this schedule (digest %016x %s) differs from the sequential result (digest %016x %s)", pi, ci, oi, ph.Clients[ci][oi].Op, r.Digest, r.Text, d.Digest, d.Text)
				return
			}
		}
	}
}

// FinalizeTapes stores the recorded schedule into the scenario so that it
// replays without the PRNG.
func (x *Exec) FinalizeTapes() {
	for i := range x.Scn.Phases {
		if i < len(x.Tapes) {
			x.Scn.Phases[i].Tape = x.Tapes[i]
		}
		x.Scn.Phases[i].Sched = scn.Sched{Kind: "tape"}
	}
}

// SortedKeys returns the keys of a counter map in order.
func SortedKeys(m map[string]int64) []string {
	ks := make([]string, 0, len(m))
	for k := range m {
		ks = append(ks, k)
	}
	sort.Strings(ks)
	return ks
}
