package sim

import (
	"encoding/binary"
	"encoding/json"
	"flag"
	"fmt"
	"os"
	"regexp"
	"sort"
	"strings"
	"time"

	"google.golang.org/protobuf/internal/simcore"
	"google.golang.org/protobuf/zverifsim/scn"
)

// WorkerResult is what a worker process reports to the driver.
type WorkerResult struct {
	Property    string            `json:"property"`
	Offset      int               `json:"offset"`
	Runs        int64             `json:"runs"`
	Evals       int64             `json:"evals"`
	DryRuns     int64             `json:"dry_runs"`
	Steps       int64             `json:"steps"`
	Switches    int64             `json:"switches"`
	SwitchIn    int64             `json:"switches_in_op"`
	Faults      map[string]int64  `json:"faults"`
	Probes      map[string]int64  `json:"probes"`
	DetChecks   int64             `json:"determinism_rechecks"`
	DetFailures int64             `json:"determinism_failures"`
	Violation   *scn.Violation    `json:"violation,omitempty"`
	ViolSeed    uint64            `json:"violation_seed,omitempty"`
	ViolFile    string            `json:"violation_file,omitempty"`
	Samples     []*scn.Scn        `json:"samples,omitempty"`
	FirstSeed   uint64            `json:"first_seed"`
	LastSeed    uint64            `json:"last_seed"`
	WallS       float64           `json:"wall_s"`
	Infra       string            `json:"infra,omitempty"`
	Race        bool              `json:"race"`
	Tags        string            `json:"tags"`
	Known       map[string]int64  `json:"known,omitempty"`        // known-finding class -> hits
	KnownSample map[string]string `json:"known_sample,omitempty"` // class -> scenario file
}

// KnownFinding is an entry of /verif/known_findings.json.
type KnownFinding struct {
	Property string `json:"property"`
	Status   string `json:"status"` // "open" or "fixed"
	Class    string `json:"class"`  // exact violation class
	What     string `json:"what"`
	Commit   string `json:"commit,omitempty"`
}

func loadKnown(path string) []KnownFinding {
	if path == "" {
		return nil
	}
	b, err := os.ReadFile(path)
	if err != nil {
		return nil
	}
	var f struct {
		Findings []KnownFinding `json:"findings"`
	}
	if json.Unmarshal(b, &f) != nil {
		return nil
	}
	return f.Findings
}

func isKnown(known []KnownFinding, prop, class string) bool {
	for _, k := range known {
		if k.Status == "open" && k.Property == prop && k.Class == class {
			return true
		}
	}
	return false
}

var (
	curExec    *Exec
	curOutFile string
)

// RunOne generates nothing: it executes scenario s (with an optional dry run
// first when the schedule needs sizing) and returns the outcome.
func RunOne(w Workload, s *scn.Scn, replay, keepTrace bool) *Exec {
	// A sequential dry run of the same scenario comes first whenever the
	// scenario has scheduled phases: it sizes PCT schedules and, more
	// importantly, performs every one-time initialisation the scenario touches
	// (MessageInfo.init, descriptor tables, ...), so that the scheduled run is
	// a function of (tree, scenario) and not of what this process ran before.
	needDry := len(s.Phases) > 0 && !s.NoDryRun
	_ = replay
	var steps []int64
	var dryLogs [][]ClientLog
	if needDry {
		d := NewExec(s)
		d.Dry = true
		curExec = d
		beforeDry := raceErrors()
		SetMapSeed(s.MapSeed | 1)
		w.Run(s, d)
		SetMapSeed(0)
		if n := raceErrors() - beforeDry; n > 0 {
			// The dry run executes the clients one after the other, but they are
			// still separate goroutines with no synchronisation between them other
			// than what the code under test performs: a report here is a race like
			// any other (and the detector would not repeat it in the scheduled run).
			rep := readRaceLog()
			d.Out.Violation = nil
			d.Fail(raceClass(rep), "%d data race report(s):\n%s", n, rep)
		}
		if d.Failed() {
			d.Out.Violation.Detail = "[sequential dry run] " + d.Out.Violation.Detail
			d.FinalizeDry()
			return d
		}
		steps = d.PhaseStep
		dryLogs = d.AllLogs
	}
	x := NewExec(s)
	x.Replay = replay
	x.KeepTrace = keepTrace
	x.PhaseStep = steps
	x.DryLogs = dryLogs
	curExec = x
	before := raceErrors()
	SetMapSeed(s.MapSeed | 1)
	w.Run(s, x)
	SetMapSeed(0)
	if n := raceErrors() - before; n > 0 {
		rep := readRaceLog()
		x.Out.Violation = nil // a race report outranks whatever it caused
		x.Fail(raceClass(rep), "%d data race report(s):\n%s", n, rep)
	}
	return x
}

// FinalizeDry turns a failing dry run into a replayable scenario: all tapes empty.
func (x *Exec) FinalizeDry() {
	x.Tapes = make([][]scn.Decision, len(x.Scn.Phases))
}

var raceLogPath string
var raceLogOff int64

func readRaceLog() string {
	if raceLogPath == "" {
		return "(race log not captured)"
	}
	p := fmt.Sprintf("%s.%d", raceLogPath, os.Getpid())
	b, err := os.ReadFile(p)
	if err != nil {
		return "(race log unreadable: " + err.Error() + ")"
	}
	if int64(len(b)) > raceLogOff {
		b = b[raceLogOff:]
	}
	raceLogOff += int64(len(b))
	if len(b) > 12000 {
		b = b[:12000]
	}
	return string(b)
}

var frameRe = regexp.MustCompile(`(?m)^  (\S+)\(\)\n`)

// raceClass derives a stable class from a race report: the first frame of
// each of the two access stacks that is not scheduler or shim code.
func raceClass(rep string) string {
	var tops []string
	for _, block := range strings.Split(rep, "\n\n") {
		if !(strings.Contains(block, " by goroutine ") || strings.Contains(block, " by main goroutine")) {
			continue
		}
		head := block
		if i := strings.Index(head, "\n"); i >= 0 {
			head = head[:i]
		}
		if !(strings.Contains(head, "rite at") || strings.Contains(head, "ead at") || strings.Contains(head, "revious")) {
			continue
		}
		for _, m := range frameRe.FindAllStringSubmatch(block, -1) {
			f := m[1]
			if strings.Contains(f, "internal/simatomic") || strings.Contains(f, "internal/simsync") || strings.Contains(f, "internal/simcore") || strings.HasPrefix(f, "sync/atomic.") || strings.HasPrefix(f, "sync.") || strings.HasPrefix(f, "runtime.") {
				continue
			}
			tops = append(tops, f)
			break
		}
		if len(tops) == 2 {
			break
		}
	}
	sort.Strings(tops)
	return "race:" + strings.Join(tops, "|")
}

func writeJSON(path string, v any) {
	b, _ := json.MarshalIndent(v, "", " ")
	os.WriteFile(path, append(b, '\n'), 0o644)
}

// WorkerMain is the entry point of the instrumented worker binary.
func WorkerMain() {
	var (
		tagsF    = flag.String("tagslabel", "", "build tags this binary was built with (label only)")
		knownF   = flag.String("known", "", "known-findings file")
		prop     = flag.String("prop", "", "property id")
		tier     = flag.String("tier", "quick", "tier")
		base     = flag.Uint64("base", 1, "base seed")
		stride   = flag.Int("stride", 1, "number of workers")
		offset   = flag.Int("offset", 0, "index of this worker")
		deadline = flag.Float64("deadline", 30, "seconds of search")
		maxruns  = flag.Int64("maxruns", 0, "stop after this many scenarios (0 = until deadline)")
		out      = flag.String("out", "", "output directory")
		replay   = flag.String("replay", "", "scenario file to execute once")
		trace    = flag.Bool("trace", false, "print the trace in replay mode")
		gen      = flag.Uint64("gen", 0, "print the scenario generated from this seed and exit")
		one      = flag.Uint64("one", 0, "run exactly the scenario generated from this seed (used by the driver after a worker process died)")
		hashOnly = flag.Bool("hash", false, "with -one: print the trace hash of that scenario and exit (determinism self-test)")
		detEvery = flag.Int64("det-every", 50, "re-execute every n-th scenario from its recorded tape and compare traces")
		search   = flag.Int("search", 0, "with -replay: if >0, ignore the stored schedule and try this many fresh schedules, looking for the expected violation class; the first failing scenario is written to -save")
		save     = flag.String("save", "", "with -search: where to write the failing scenario")
	)
	flag.Parse()
	tags := *tagsF
	known := loadKnown(*knownF)
	raceLogPath = os.Getenv("PBSIM_RACELOG")

	if *replay != "" {
		s, err := scn.Load(*replay)
		if err != nil {
			fmt.Fprintln(os.Stderr, "pbsim-worker:", err)
			os.Exit(2)
		}
		w := workloads[s.Property]
		if w == nil {
			fmt.Fprintln(os.Stderr, "pbsim-worker: unknown property", s.Property)
			os.Exit(2)
		}
		curOutFile = *out
		installAbortHook(s)
		if *search > 0 {
			want := ""
			if s.Expect != nil {
				want = s.Expect.Class
			}
			for k := 0; k < *search; k++ {
				c := s.Clone()
				r := NewRng(Mix(c.Seed, uint64(k)+0x5ea7c4))
				for pi := range c.Phases {
					c.Phases[pi].Tape = nil
					if len(c.Phases[pi].Clients) < 2 {
						c.Phases[pi].Sched = scn.Sched{Kind: "tape"}
						continue
					}
					if k%4 == 3 {
						c.Phases[pi].Sched = scn.Sched{Kind: "random", Stay: []uint32{820, 973, 1014}[r.Intn(3)], SiteBias: r.Bool(), Seed: r.U64()}
					} else {
						c.Phases[pi].Sched = scn.Sched{Kind: "pct", Depth: 1 + k%3, Seed: r.U64()}
					}
				}
				x := RunOne(w, c, false, false)
				if x.Out.Violation != nil && (want == "" || x.Out.Violation.Class == want) {
					x.FinalizeTapes()
					c.Expect = x.Out.Violation
					if *save != "" {
						c.Save(*save)
					}
					if *out != "" {
						writeJSON(*out, x.Out)
					}
					fmt.Printf("violation class=%s (schedule %d of search)\n", x.Out.Violation.Class, k)
					os.Exit(1)
				}
			}
			if *out != "" {
				writeJSON(*out, &scn.Outcome{})
			}
			fmt.Println("no violation in search")
			os.Exit(0)
		}
		x := RunOne(w, s, false, *trace)
		x.Out.Tapes = x.Tapes
		if *out != "" {
			writeJSON(*out, x.Out)
		}
		if *save != "" && x.Out.Violation != nil {
			x.FinalizeTapes()
			s.Expect = x.Out.Violation
			s.Save(*save)
		}
		if *trace {
			for _, l := range x.Out.Trace {
				fmt.Println(l)
			}
		}
		fmt.Printf("trace_hash=%016x steps=%d switches=%d\n", x.Out.TraceHash, x.Out.Steps, x.Out.Switches)
		if x.Out.Violation != nil {
			fmt.Printf("violation class=%s\n%s\n", x.Out.Violation.Class, x.Out.Violation.Detail)
			os.Exit(1)
		}
		fmt.Println("no violation")
		os.Exit(0)
	}

	w := workloads[*prop]
	if w == nil {
		fmt.Fprintln(os.Stderr, "pbsim-worker: unknown property", *prop)
		os.Exit(2)
	}
	if *gen != 0 {
		s := w.Gen(NewRng(*gen), *tier)
		s.Seed = *gen
		b, _ := json.MarshalIndent(s, "", " ")
		fmt.Println(string(b))
		return
	}
	res := &WorkerResult{Property: *prop, Offset: *offset, Faults: map[string]int64{}, Probes: map[string]int64{}, Race: RaceEnabled, Tags: tags}
	start := time.Now()
	keys := map[uint64]struct{}{}
	resultPath := fmt.Sprintf("%s/result-%d.json", *out, *offset)
	finish := func(code int) {
		res.WallS = time.Since(start).Seconds()
		writeJSON(resultPath, res)
		kb := make([]byte, 0, 8*len(keys))
		for k := range keys {
			kb = binary.LittleEndian.AppendUint64(kb, k)
		}
		os.WriteFile(fmt.Sprintf("%s/keys-%d.bin", *out, *offset), kb, 0o644)
		os.Exit(code)
	}
	curF, _ := os.Create(fmt.Sprintf("%s/cur-%d", *out, *offset))
	for i := int64(0); ; i++ {
		if *maxruns > 0 && i >= *maxruns {
			break
		}
		if *one != 0 && i > 0 {
			break
		}
		if i%8 == 0 && time.Since(start).Seconds() > *deadline {
			break
		}
		seed := Mix(*base, uint64(int64(*offset)+i*int64(*stride)))
		if seed == 0 {
			seed = 1
		}
		if *one != 0 {
			seed = *one
		}
		// leave a note of what is about to run: if the code under test kills the
		// process (fatal error, stack overflow), the driver re-runs this seed
		if curF != nil {
			curF.WriteAt([]byte(fmt.Sprintf("%-24d", seed)), 0) // one pwrite, no open/close
		}
		s := w.Gen(NewRng(seed), *tier)
		s.Seed = seed
		s.Property = *prop
		s.Race = RaceEnabled
		if s.MapSeed == 0 {
			s.MapSeed = Mix(seed, 77) | 1
		}
		if tags != "" {
			s.Tags = strings.Split(tags, ",")
		}
		if i == 0 {
			res.FirstSeed = seed
		}
		res.LastSeed = seed
		violFile := fmt.Sprintf("%s/viol-%d.json", *out, *offset)
		if *one != 0 && *hashOnly {
			x := RunOne(w, s, false, false)
			v := "-"
			if x.Out.Violation != nil {
				v = x.Out.Violation.Class
			}
			fmt.Printf("seed=%d trace=%016x sig=%016x steps=%d switches=%d violation=%s\n", seed, x.Out.TraceHash, x.Out.SigHash, x.Out.Steps, x.Out.Switches, v)
			os.Exit(0)
		}
		if *one != 0 {
			c := s.Clone()
			c.Expect = &scn.Violation{Class: "process-crash", Detail: "the process running this scenario died"}
			c.Save(fmt.Sprintf("%s/crash-%d.json", *out, *offset))
		}
		curOutFile = ""
		installAbortHookGen(s, res, violFile, finish)
		x := RunOne(w, s, false, false)
		res.Runs++
		if x.PhaseStep != nil {
			res.DryRuns++
		}
		res.Steps += x.Out.Steps
		res.Evals += x.Out.Evals
		res.Switches += x.Out.Switches
		res.SwitchIn += x.Out.SwitchIn
		for k, v := range x.Out.Faults {
			res.Faults[k] += v
		}
		for k, v := range x.Out.Probes {
			res.Probes[k] += v
		}
		// one key per scenario: what the workload says distinguishes the case,
		// folded with the switch signature of its scheduled phases
		if len(keys) < 4_000_000 && (len(x.Out.Keys) > 0 || x.Out.SwitchIn > 0) {
			k := x.Out.SigHash
			for _, wk := range x.Out.Keys {
				k = Mix(k, wk)
			}
			keys[k] = struct{}{}
		}
		if x.Out.Violation != nil && isKnown(known, *prop, x.Out.Violation.Class) {
			if res.Known == nil {
				res.Known = map[string]int64{}
				res.KnownSample = map[string]string{}
			}
			cl := x.Out.Violation.Class
			res.Known[cl]++
			if res.KnownSample[cl] == "" {
				x.FinalizeTapes()
				s.Expect = x.Out.Violation
				f := fmt.Sprintf("%s/known-%d-%d.json", *out, *offset, len(res.Known))
				s.Save(f)
				res.KnownSample[cl] = f
			}
			continue
		}
		if x.Out.Violation != nil {
			x.FinalizeTapes()
			s.Expect = x.Out.Violation
			s.Save(violFile)
			res.Violation = x.Out.Violation
			res.ViolSeed = seed
			res.ViolFile = violFile
			finish(1)
		}
		if len(res.Samples) < 2 && (x.Out.Switches > 0 || len(x.Out.Faults) > 0 || i > 20) {
			c := s.Clone()
			xx := *x
			xx.Scn = c
			xx.FinalizeTapes()
			trimSample(c)
			res.Samples = append(res.Samples, c)
		}
		// light determinism self-test: the recorded tape must reproduce the trace
		if *detEvery > 0 && i%*detEvery == 0 {
			c := s.Clone()
			xx := *x
			xx.Scn = c
			xx.FinalizeTapes()
			y := RunOne(w, c, false, false)
			res.DetChecks++
			if y.Out.Violation != nil {
				// the second execution of the same scenario exposed a violation
				// (e.g. a race the detector only caught this time): report it
				y.FinalizeTapes()
				c.Expect = y.Out.Violation
				c.Save(violFile)
				res.Violation = y.Out.Violation
				res.ViolSeed = seed
				res.ViolFile = violFile
				finish(1)
			}
			if y.Out.TraceHash != x.Out.TraceHash {
				res.DetFailures++
				c.Save(fmt.Sprintf("%s/nondet-%d.json", *out, *offset))
				// Counted and kept (nondet-<n>.json), not fatal: inside a worker that has run thousands of
				// scenarios a scenario can take a slightly different path than in its own replay (state the
				// process accumulated); what is reported as a violation is replayed in fresh processes anyway.
				// The driver ends the run with exit 2 only if such divergences are frequent.
			}
		}
	}
	finish(0)
}

func trimSample(c *scn.Scn) {
	for i := range c.Objects {
		if len(c.Objects[i].Wire) > 96 {
			c.Objects[i].Note += fmt.Sprintf(" [wire truncated from %d bytes for display]", len(c.Objects[i].Wire))
			c.Objects[i].Wire = c.Objects[i].Wire[:96]
		}
	}
	for pi := range c.Phases {
		p := &c.Phases[pi]
		if len(p.Tape) > 24 {
			p.Name += fmt.Sprintf(" [tape truncated from %d decisions for display]", len(p.Tape))
			p.Tape = p.Tape[:24]
		}
		for ci := range p.Clients {
			for oi := range p.Clients[ci] {
				if len(p.Clients[ci][oi].B) > 48 {
					p.Clients[ci][oi].B = p.Clients[ci][oi].B[:48]
				}
			}
		}
	}
}

func installAbortHook(s *scn.Scn) {
	simcore.AbortHook = func(reason string) {
		fmt.Printf("violation class=%s\nrun aborted: %s\n", reason, reason)
		if curOutFile != "" {
			writeJSON(curOutFile, &scn.Outcome{Violation: &scn.Violation{Class: reason, Detail: "run aborted: " + reason}})
		}
		os.Exit(1)
	}
}

func installAbortHookGen(s *scn.Scn, res *WorkerResult, violFile string, finish func(int)) {
	simcore.AbortHook = func(reason string) {
		// The tape up to the abort is in the scheduler; it cannot be read here
		// (the run never ends), so the scenario keeps its generating strategy:
		// generation from the seed is deterministic and the driver re-derives it.
		v := &scn.Violation{Class: reason, Detail: "run aborted: all clients blocked or step bound exceeded (" + reason + ")"}
		s.Expect = v
		s.Save(violFile)
		res.Runs++
		res.Violation = v
		res.ViolSeed = s.Seed
		res.ViolFile = violFile
		finish(1)
	}
}
