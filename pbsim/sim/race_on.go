//go:build race

package sim

import "runtime"

const RaceEnabled = true

func raceErrors() int { return runtime.RaceErrors() }
