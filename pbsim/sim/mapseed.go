package sim

import _ "unsafe"

// SetMapSeed seeds the runtime's map hash-seed / iteration-offset source
// (runtime overlay, see rtpatch/zsim.go.txt). 0 restores the shipped
// behaviour (per-thread random).
//
//go:linkname SetMapSeed runtime.simSetMapSeed
func SetMapSeed(s uint64)
