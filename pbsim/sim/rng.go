package sim

// Rng is the only source of choices in scenario generation (splitmix64).
type Rng struct{ s uint64 }

func NewRng(seed uint64) *Rng { return &Rng{s: seed ^ 0x6a09e667f3bcc909} }

func (r *Rng) U64() uint64 {
	r.s += 0x9e3779b97f4a7c15
	z := r.s
	z = (z ^ (z >> 30)) * 0xbf58476d1ce4e5b9
	z = (z ^ (z >> 27)) * 0x94d049bb133111eb
	return z ^ (z >> 31)
}

// Intn returns a value in [0, n).
func (r *Rng) Intn(n int) int {
	if n <= 1 {
		return 0
	}
	return int(r.U64() % uint64(n))
}

// Range returns a value in [lo, hi].
func (r *Rng) Range(lo, hi int) int { return lo + r.Intn(hi-lo+1) }

func (r *Rng) Bool() bool { return r.U64()&1 == 1 }

// Chance is true with probability num/den.
func (r *Rng) Chance(num, den int) bool { return r.Intn(den) < num }

func (r *Rng) Bytes(n int) []byte {
	b := make([]byte, n)
	for i := range b {
		b[i] = byte(r.U64())
	}
	return b
}

// Fork derives an independent generator.
func (r *Rng) Fork() *Rng { return NewRng(r.U64()) }

// Mix combines two seeds.
func Mix(a, b uint64) uint64 {
	x := a ^ (b+0x9e3779b97f4a7c15)*0xbf58476d1ce4e5b9
	x ^= x >> 31
	x *= 0x94d049bb133111eb
	x ^= x >> 29
	return x
}

// Hash64 is FNV-1a over bytes.
func Hash64(b []byte) uint64 {
	h := uint64(14695981039346656037)
	for _, c := range b {
		h ^= uint64(c)
		h *= 1099511628211
	}
	return h
}

func HashStr(s string) uint64 { return Hash64([]byte(s)) }
