module google.golang.org/protobuf/zverifsim

go 1.23

require (
	github.com/anishathalye/porcupine v1.3.0
	github.com/golang/protobuf v1.5.0
	github.com/google/go-cmp v0.7.0
	google.golang.org/protobuf v1.26.0-rc.1
)

replace google.golang.org/protobuf => /repo
