// Command pbsim-worker is the instrumented binary: real protobuf-go from
// /repo's working tree, compiled against the scheduler shims and the patched
// runtime, plus every workload.
package main

import (
	"google.golang.org/protobuf/zverifsim/sim"
	_ "google.golang.org/protobuf/zverifsim/work"
)

func main() { sim.WorkerMain() }
