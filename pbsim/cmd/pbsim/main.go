// Command pbsim is the driver: it derives the instrumented build from /repo's
// current working tree, fans out worker processes over seeds, aggregates
// evidence, shrinks and verifies violations, and reports.
//
//	pbsim check <ID> quick|thorough
//	pbsim replay <file> [--trace]
//	pbsim build                      (warm the build cache; used by setup)
//
// Exit codes: 0 held, 1 violation (with a VIOLATION line), 2 infrastructure.
package main

import (
	"encoding/binary"
	"encoding/json"
	"fmt"
	"os"
	"os/exec"
	"path/filepath"
	"runtime"
	"sort"
	"strconv"
	"strings"
	"sync"
	"time"

	"google.golang.org/protobuf/zverifsim/buildsys"
	"google.golang.org/protobuf/zverifsim/scn"
)

func die(code int, format string, args ...any) {
	fmt.Fprintf(os.Stderr, "pbsim: "+format+"\n", args...)
	os.Exit(code)
}

// workerResult mirrors sim.WorkerResult (the driver cannot import sim, which
// needs the overlay).
type workerResult struct {
	Property    string            `json:"property"`
	Offset      int               `json:"offset"`
	Runs        int64             `json:"runs"`
	Evals       int64             `json:"evals"`
	DryRuns     int64             `json:"dry_runs"`
	Steps       int64             `json:"steps"`
	Switches    int64             `json:"switches"`
	SwitchIn    int64             `json:"switches_in_op"`
	Faults      map[string]int64  `json:"faults"`
	Probes      map[string]int64  `json:"probes"`
	DetChecks   int64             `json:"determinism_rechecks"`
	DetFailures int64             `json:"determinism_failures"`
	Violation   *scn.Violation    `json:"violation,omitempty"`
	ViolSeed    uint64            `json:"violation_seed,omitempty"`
	ViolFile    string            `json:"violation_file,omitempty"`
	Samples     []json.RawMessage `json:"samples,omitempty"`
	FirstSeed   uint64            `json:"first_seed"`
	LastSeed    uint64            `json:"last_seed"`
	WallS       float64           `json:"wall_s"`
	Infra       string            `json:"infra,omitempty"`
	Race        bool              `json:"race"`
	Tags        string            `json:"tags"`
	Known       map[string]int64  `json:"known,omitempty"`
	KnownSample map[string]string `json:"known_sample,omitempty"`
}

type knownFinding struct {
	Property string `json:"property"`
	Status   string `json:"status"`
	Class    string `json:"class"`
	What     string `json:"what"`
	Commit   string `json:"commit,omitempty"`
}

var knownPath = buildsys.VerifDir + "/known_findings.json"

func loadKnown() []knownFinding {
	b, err := os.ReadFile(knownPath)
	if err != nil {
		return nil
	}
	var f struct {
		Findings []knownFinding `json:"findings"`
	}
	if err := json.Unmarshal(b, &f); err != nil {
		die(2, "known_findings.json: %v", err)
	}
	return f.Findings
}

func main() {
	if len(os.Args) < 2 {
		die(2, "usage: pbsim check <ID> quick|thorough | replay <file> | build")
	}
	switch os.Args[1] {
	case "check":
		if len(os.Args) < 4 {
			die(2, "usage: pbsim check <ID> quick|thorough")
		}
		os.Exit(check(os.Args[2], os.Args[3]))
	case "replay":
		if len(os.Args) < 3 {
			die(2, "usage: pbsim replay <file> [--trace]")
		}
		os.Exit(replay(os.Args[2], len(os.Args) > 3 && os.Args[3] == "--trace"))
	case "build":
		os.Exit(warm())
	case "determinism":
		// pbsim determinism <ID> [seeds] [procs]: runs each of <seeds> scenarios in <procs> fresh
		// processes spread over GOMAXPROCS 1/4/16 and compares the trace hashes
		if len(os.Args) < 3 {
			die(2, "usage: pbsim determinism <ID> [seeds] [procs]")
		}
		ns, np := 20, 30
		if len(os.Args) > 3 {
			ns, _ = strconv.Atoi(os.Args[3])
		}
		if len(os.Args) > 4 {
			np, _ = strconv.Atoi(os.Args[4])
		}
		os.Exit(determinism(os.Args[2], ns, np))
	default:
		die(2, "unknown command %q", os.Args[1])
	}
}

func workRoot() string {
	d := filepath.Join(buildsys.WorkDir, "run", fmt.Sprintf("%d", os.Getpid()))
	os.MkdirAll(d, 0o755)
	return d
}

// mutantOverlay supports self-tests on deliberately broken trees without
// touching /repo: if PBSIM_MUTANT_DIFF names a unified diff, the files it
// touches are copied to a scratch directory, patched there, and handed to the
// overlay as replacements of /repo's files.
func mutantOverlay(dir string) (map[string][]byte, error) {
	diff := os.Getenv("PBSIM_MUTANT_DIFF")
	if diff == "" {
		return nil, nil
	}
	db, err := os.ReadFile(diff)
	if err != nil {
		return nil, err
	}
	var files []string
	for _, l := range strings.Split(string(db), "\n") {
		if strings.HasPrefix(l, "+++ b/") {
			files = append(files, strings.TrimSpace(strings.TrimPrefix(l, "+++ b/")))
		}
	}
	if len(files) == 0 {
		return nil, fmt.Errorf("no files in %s", diff)
	}
	tmp := filepath.Join(dir, "mutant")
	os.RemoveAll(tmp)
	for _, f := range files {
		dst := filepath.Join(tmp, f)
		os.MkdirAll(filepath.Dir(dst), 0o755)
		if src, err := os.ReadFile(filepath.Join(buildsys.RepoDir, f)); err == nil {
			os.WriteFile(dst, src, 0o644)
		}
	}
	cmd := exec.Command("patch", "-p1", "-s", "-d", tmp, "-i", diff)
	if out, err := cmd.CombinedOutput(); err != nil {
		return nil, fmt.Errorf("patch failed: %v: %s", err, out)
	}
	extra := map[string][]byte{}
	for _, f := range files {
		b, err := os.ReadFile(filepath.Join(tmp, f))
		if err != nil {
			return nil, err
		}
		extra[f] = b
	}
	fmt.Printf("pbsim: self-test: %d file(s) of /repo replaced through the overlay by %s (the tree itself is untouched)\n", len(extra), filepath.Base(diff))
	return extra, nil
}

// pluginPath is the protoc-gen-go binary built from the working tree with the
// runtime seam (C40 only).
var pluginPath string

func buildPlugin(b *buildsys.Build, dir string) int {
	out := filepath.Join(dir, "protoc-gen-go")
	msg, err := buildsys.BuildWorker(b, out, false, nil, "google.golang.org/protobuf/cmd/protoc-gen-go")
	if err != nil {
		fmt.Fprintf(os.Stderr, "pbsim: building protoc-gen-go from the working tree failed:\n%s\n", msg)
		return 2
	}
	pluginPath = out
	return 0
}

type built struct {
	cfg buildCfg
	bin string
}

func buildAll(dir string, cfgs []buildCfg) ([]built, *buildsys.Build, int) {
	t0 := time.Now()
	extra, err := mutantOverlay(dir)
	if err != nil {
		fmt.Fprintf(os.Stderr, "pbsim: PBSIM_MUTANT_DIFF: %v\n", err)
		return nil, nil, 2
	}
	b, err := buildsys.Prepare(extra)
	if err != nil {
		fmt.Fprintf(os.Stderr, "pbsim: preparing overlay: %v\n", err)
		return nil, nil, 2
	}
	var out []built
	for i, c := range cfgs {
		bin := filepath.Join(dir, fmt.Sprintf("worker-%d", i))
		msg, err := buildsys.BuildWorker(b, bin, c.Race, c.Tags, "./cmd/pbsim-worker")
		if err != nil {
			fmt.Fprintf(os.Stderr, "pbsim: building the instrumented worker (%s) failed:\n%s\n", c.label(), msg)
			return nil, nil, 2
		}
		out = append(out, built{c, bin})
	}
	fmt.Printf("pbsim: built %d worker(s) from /repo's working tree in %.1fs (%d files scanned, %d rewritten: %d sync, %d sync/atomic imports)\n",
		len(out), time.Since(t0).Seconds(), b.Rewrite.FilesScanned, b.Rewrite.FilesRewritten, b.Rewrite.SyncImports, b.Rewrite.AtomicImports)
	return out, b, 0
}

func warm() int {
	dir := workRoot()
	defer os.RemoveAll(dir)
	cfgs := []buildCfg{{Race: true}, {Race: false}, {Race: true, Tags: []string{"protolegacy"}}}
	_, _, code := buildAll(dir, cfgs)
	return code
}

func determinism(id string, nseeds, nprocs int) int {
	p, ok := props[id]
	if !ok {
		die(2, "unknown property %q", id)
	}
	dir := workRoot()
	defer os.RemoveAll(dir)
	builds, bld, code := buildAll(dir, p.Quick.Builds[len(p.Quick.Builds)-1:])
	if code != 0 {
		return code
	}
	if p.Plugin {
		if code := buildPlugin(bld, dir); code != 0 {
			return code
		}
	}
	b := builds[0]
	bad := 0
	total := 0
	for si := 0; si < nseeds; si++ {
		seed := uint64(1000003*uint64(si+1) + 17)
		outs := make([]string, nprocs)
		var wg sync.WaitGroup
		sem := make(chan struct{}, runtime.NumCPU())
		for pi := 0; pi < nprocs; pi++ {
			wg.Add(1)
			go func(pi int) {
				defer wg.Done()
				sem <- struct{}{}
				defer func() { <-sem }()
				cmd := exec.Command(b.bin, "-prop", id, "-tier", "quick", "-out", dir, "-offset", fmt.Sprint(2000+pi), "-one", fmt.Sprint(seed), "-hash")
				env := workerEnv(dir, 2000+pi)
				gmp := []string{"1", "4", "16"}[pi%3]
				for i, e := range env {
					if strings.HasPrefix(e, "GOMAXPROCS=") {
						env[i] = "GOMAXPROCS=" + gmp
					}
				}
				cmd.Env = env
				o, _ := cmd.CombinedOutput()
				for _, l := range strings.Split(string(o), "\n") {
					if strings.HasPrefix(l, "seed=") {
						outs[pi] = l
					}
				}
				if outs[pi] == "" {
					outs[pi] = "NO OUTPUT: " + crashHead(string(o))
				}
			}(pi)
		}
		wg.Wait()
		total += nprocs
		for pi := 1; pi < nprocs; pi++ {
			if outs[pi] != outs[0] {
				bad++
				fmt.Printf("DIVERGENCE property=%s seed=%d\n  process 0 (GOMAXPROCS=1): %s\n  process %d (GOMAXPROCS=%s): %s\n", id, seed, outs[0], pi, []string{"1", "4", "16"}[pi%3], outs[pi])
				break
			}
		}
	}
	fmt.Printf("pbsim: determinism %s: %d seeds x %d processes (GOMAXPROCS 1/4/16), %d executions, %d seeds with a divergence\n", id, nseeds, nprocs, total, bad)
	if bad > 0 {
		return 2
	}
	return 0
}

func workerEnv(dir string, off int) []string {
	env := os.Environ()
	out := env[:0:0]
	for _, e := range env {
		if strings.HasPrefix(e, "GOMAXPROCS=") || strings.HasPrefix(e, "GORACE=") || strings.HasPrefix(e, "PBSIM_") || strings.HasPrefix(e, "GOPROTODEBUG=") || strings.HasPrefix(e, "GOLANG_PROTOBUF_REGISTRATION_CONFLICT=") {
			continue
		}
		out = append(out, e)
	}
	rl := filepath.Join(dir, fmt.Sprintf("race-%d", off))
	if pluginPath != "" {
		out = append(out, "PBSIM_PLUGIN="+pluginPath)
	}
	out = append(out, "GOMAXPROCS=1", "PBSIM_RACELOG="+rl, "GORACE=log_path="+rl+" halt_on_error=0 history_size=4", "PBSIM_WORKDIR="+dir, "PBSIM_MAPSEED=1")
	return out
}

func check(id, tier string) int {
	p, ok := props[id]
	if !ok {
		die(2, "unknown or unclaimed property %q", id)
	}
	if tier != "quick" && tier != "thorough" {
		die(2, "tier must be quick or thorough")
	}
	seed := uint64(1)
	if s := os.Getenv("VERIF_SEED"); s != "" {
		v, err := strconv.ParseUint(s, 10, 64)
		if err != nil {
			die(2, "VERIF_SEED: %v", err)
		}
		seed = v
	}
	start := time.Now()
	dir := workRoot()
	if os.Getenv("PBSIM_KEEP") != "" { // for experiments only: keep the work directory (worker binaries)
		fmt.Fprintln(os.Stderr, "pbsim: keeping", dir)
	} else {
		defer os.RemoveAll(dir)
	}

	plan := p.Quick
	if tier == "thorough" {
		plan = p.Thorough
	}
	if s := os.Getenv("PBSIM_SECS"); s != "" { // for experiments only
		if v, err := strconv.ParseFloat(s, 64); err == nil {
			plan.Secs = v
		}
	}
	builds, bld, code := buildAll(dir, plan.Builds)
	if code != 0 {
		return code
	}
	if p.Plugin {
		if code := buildPlugin(bld, dir); code != 0 {
			return code
		}
	}
	nw := runtime.NumCPU()
	if s := os.Getenv("PBSIM_WORKERS"); s != "" {
		if v, err := strconv.Atoi(s); err == nil && v > 0 {
			nw = v
		}
	}
	known := loadKnown()
	agg := newAggregate(id, tier, seed, p)
	var violation *workerResult
	var violBuild built
	totalShare := 0.0
	for _, b := range builds {
		totalShare += b.cfg.Share
	}
	for bi, b := range builds {
		secs := plan.Secs * b.cfg.Share / totalShare
		odir := filepath.Join(dir, fmt.Sprintf("out-%d", bi))
		os.MkdirAll(odir, 0o755)
		results, infra := runWorkers(b, id, tier, seed+uint64(bi)*1000003, nw, secs, plan.MaxRuns, odir)
		if infra != "" {
			fmt.Fprintf(os.Stderr, "pbsim: %s\n", infra)
			agg.write(time.Since(start).Seconds(), 0)
			keepInfra(dir)
			return 2
		}
		agg.add(b, results, odir)
		for _, r := range results {
			if r.Violation != nil && (violation == nil || r.ViolSeed < violation.ViolSeed) {
				violation = r
				violBuild = b
			}
		}
		if violation != nil {
			break
		}
	}
	for _, k := range known {
		if k.Property == id && k.Status == "open" {
			if n := agg.Known[k.Class]; n > 0 {
				fmt.Printf("KNOWN-FINDING: property=%s %s [class %s, hit %d times in this run]\n", id, k.What, k.Class, n)
			} else {
				fmt.Printf("KNOWN-FINDING: property=%s %s [class %s, not hit in this run]\n", id, k.What, k.Class)
			}
		}
	}
	if violation == nil {
		if agg.DetFailures > 2 && agg.DetFailures*20 > agg.DetChecks {
			agg.write(time.Since(start).Seconds(), 0)
			fmt.Fprintf(os.Stderr, "pbsim: %d of %d in-worker determinism rechecks diverged: the scheduler no longer controls this tree (scenarios kept as nondet-*.json)\n", agg.DetFailures, agg.DetChecks)
			keepInfra(dir)
			return 2
		}
		if agg.DetFailures > 0 {
			fmt.Fprintf(os.Stderr, "pbsim: note: %d of %d in-worker determinism rechecks diverged (a long-lived worker took a slightly different path than the scenario's own replay; counted in the evidence file)\n", agg.DetFailures, agg.DetChecks)
		}
		agg.write(time.Since(start).Seconds(), 0)
		fmt.Printf("pbsim: %s %s: property held on %d scenarios (%d evaluations, %d distinct non-trivial), %.1fs\n", id, tier, agg.Runs, agg.evaluations(), len(agg.keys), time.Since(start).Seconds())
		return 0
	}
	// shrink, verify, report
	fmt.Printf("pbsim: violation of %s found (seed %d, class %s); shrinking in fresh processes\n", id, violation.ViolSeed, violation.Violation.Class)
	s, err := scn.Load(violation.ViolFile)
	if err != nil {
		die(2, "cannot load violating scenario: %v", err)
	}
	min, replays, verified := shrink(violBuild, s, violation.Violation.Class, dir, 150*time.Second)
	rdir := buildsys.VerifDir + "/replays"
	if d := os.Getenv("PBSIM_REPLAY_DIR"); d != "" { // self-tests keep their replays out of /verif/replays
		rdir = d
	}
	os.MkdirAll(rdir, 0o755)
	rp := fmt.Sprintf("%s/%s-%d.json", rdir, id, violation.ViolSeed)
	min.Save(rp)
	agg.ShrinkReplays = replays
	agg.write(time.Since(start).Seconds(), 1)
	if !verified {
		fmt.Fprintf(os.Stderr, "pbsim: the violation (class %s) did not reproduce when replayed in a fresh process; scenario kept at %s. Detail of the original report:\n%s\n", violation.Violation.Class, rp, violation.Violation.Detail)
		if p.IrreproducibleIsViolation {
			fmt.Printf("VIOLATION property=%s replay=%s\n", id, rp)
			return 1
		}
		return 2
	}
	fmt.Printf("%s\n", min.Expect.Detail)
	fmt.Printf("VIOLATION property=%s replay=%s\n", id, rp)
	return 1
}

func keepInfra(dir string) {
	dst := filepath.Join(buildsys.WorkDir, "last-infra-failure")
	os.RemoveAll(dst)
	os.Rename(dir, dst)
	fmt.Fprintf(os.Stderr, "pbsim: worker output kept in %s\n", dst)
}

func runWorkers(b built, id, tier string, seed uint64, nw int, secs float64, maxruns int64, odir string) ([]*workerResult, string) {
	var wg sync.WaitGroup
	results := make([]*workerResult, nw)
	errs := make([]string, nw)
	for i := 0; i < nw; i++ {
		wg.Add(1)
		go func(i int) {
			defer wg.Done()
			args := []string{"-prop", id, "-tier", tier, "-base", fmt.Sprint(seed), "-stride", fmt.Sprint(nw), "-offset", fmt.Sprint(i),
				"-deadline", fmt.Sprint(secs), "-out", odir, "-tagslabel", strings.Join(b.cfg.Tags, ","), "-known", knownPath}
			if maxruns > 0 {
				args = append(args, "-maxruns", fmt.Sprint((maxruns+int64(nw)-1)/int64(nw)))
			}
			cmd := exec.Command(b.bin, args...)
			cmd.Env = workerEnv(odir, i)
			logf, _ := os.Create(filepath.Join(odir, fmt.Sprintf("log-%d.txt", i)))
			cmd.Stdout = logf
			cmd.Stderr = logf
			done := make(chan error, 1)
			if err := cmd.Start(); err != nil {
				errs[i] = err.Error()
				return
			}
			go func() { done <- cmd.Wait() }()
			var err error
			select {
			case err = <-done:
			case <-time.After(time.Duration((secs*3+120)*float64(time.Second)) + 10*time.Minute):
				cmd.Process.Kill()
				<-done
				errs[i] = fmt.Sprintf("worker %d exceeded the watchdog", i)
				logf.Close()
				return
			}
			logf.Close()
			rb, rerr := os.ReadFile(filepath.Join(odir, fmt.Sprintf("result-%d.json", i)))
			if rerr != nil {
				lg, _ := os.ReadFile(filepath.Join(odir, fmt.Sprintf("log-%d.txt", i)))
				// The process died. If the scenario it was running kills a fresh
				// process again, that is a finding about the code under test.
				if r := retryCrashed(b, args, odir, i, string(lg)); r != nil {
					results[i] = r
					return
				}
				if len(lg) > 4000 {
					lg = lg[len(lg)-4000:]
				}
				errs[i] = fmt.Sprintf("worker %d left no result (%v) and the scenario it was running did not kill a fresh process; log tail:\n%s", i, err, lg)
				return
			}
			r := new(workerResult)
			if jerr := json.Unmarshal(rb, r); jerr != nil {
				errs[i] = fmt.Sprintf("worker %d result unreadable: %v", i, jerr)
				return
			}
			if r.Infra != "" {
				errs[i] = fmt.Sprintf("worker %d: %s", i, r.Infra)
			}
			results[i] = r
		}(i)
	}
	wg.Wait()
	// a violation found by any worker outweighs a determinism self-test divergence noted by another
	for _, r := range results {
		if r != nil && r.Violation != nil {
			for i := range results {
				if results[i] == nil {
					results[i] = &workerResult{Faults: map[string]int64{}, Probes: map[string]int64{}}
				}
			}
			return results, ""
		}
	}
	for _, e := range errs {
		if e != "" {
			return nil, e
		}
	}
	return results, ""
}

// retryCrashed re-runs, in a fresh process, the one scenario a dead worker was
// executing. If that process dies too the scenario is returned as a violation
// of class process-crash; if it reports an ordinary violation, that one.
func retryCrashed(b built, args []string, odir string, i int, firstLog string) *workerResult {
	cb, err := os.ReadFile(filepath.Join(odir, fmt.Sprintf("cur-%d", i)))
	if err != nil {
		return nil
	}
	seed := strings.TrimSpace(string(cb))
	os.Remove(filepath.Join(odir, fmt.Sprintf("result-%d.json", i)))
	cmd := exec.Command(b.bin, append(append([]string{}, args...), "-one", seed, "-det-every", "0")...)
	cmd.Env = workerEnv(odir, 500+i)
	out, _ := cmd.CombinedOutput()
	if rb, err := os.ReadFile(filepath.Join(odir, fmt.Sprintf("result-%d.json", i))); err == nil {
		r := new(workerResult)
		if json.Unmarshal(rb, r) == nil && r.Violation != nil {
			return r
		}
		return nil // ran to completion: the first death does not reproduce
	}
	cf := filepath.Join(odir, fmt.Sprintf("crash-%d.json", i))
	if _, err := os.Stat(cf); err != nil {
		return nil
	}
	sd, _ := strconv.ParseUint(seed, 10, 64)
	return &workerResult{Runs: 1, Faults: map[string]int64{}, Probes: map[string]int64{}, ViolSeed: sd, ViolFile: cf,
		Violation: &scn.Violation{Class: "process-crash", Detail: "the worker process died while running this scenario, twice:\n" + crashHead(string(out))}}
}

func crashHead(out string) string {
	lines := strings.Split(out, "\n")
	for i, l := range lines {
		if strings.HasPrefix(l, "fatal error:") || strings.HasPrefix(l, "panic:") || strings.Contains(l, "SIGSEGV") || strings.HasPrefix(l, "runtime: ") {
			end := i + 25
			if end > len(lines) {
				end = len(lines)
			}
			return strings.Join(lines[i:end], "\n")
		}
	}
	if len(out) > 2000 {
		out = out[:2000]
	}
	return out
}

func looksLikeCrash(out string) bool {
	return strings.Contains(out, "fatal error:") || strings.Contains(out, "\npanic:") || strings.HasPrefix(out, "panic:") || strings.Contains(out, "SIGSEGV") || strings.Contains(out, "stack overflow")
}

// ---- aggregate / evidence ----

type aggregate struct {
	ID, Tier      string
	Seed          uint64
	P             *propCfg
	Runs          int64
	Evals         int64
	DryRuns       int64
	Steps         int64
	Switches      int64
	SwitchIn      int64
	Faults        map[string]int64
	Probes        map[string]int64
	Known         map[string]int64
	DetChecks     int64
	DetFailures   int64
	keys          map[uint64]struct{}
	Samples       []json.RawMessage
	Builds        []map[string]any
	SearchS       float64
	ShrinkReplays int
}

func newAggregate(id, tier string, seed uint64, p *propCfg) *aggregate {
	return &aggregate{ID: id, Tier: tier, Seed: seed, P: p, Faults: map[string]int64{}, Probes: map[string]int64{}, Known: map[string]int64{}, keys: map[uint64]struct{}{}}
}

func (a *aggregate) evaluations() int64 {
	if a.Evals > 0 {
		return a.Evals
	}
	return a.Runs
}

func (a *aggregate) add(b built, rs []*workerResult, odir string) {
	var runs int64
	var wall float64
	for i, r := range rs {
		if r == nil {
			continue
		}
		runs += r.Runs
		a.Runs += r.Runs
		a.Evals += r.Evals
		a.DryRuns += r.DryRuns
		a.Steps += r.Steps
		a.Switches += r.Switches
		a.SwitchIn += r.SwitchIn
		a.DetChecks += r.DetChecks
		a.DetFailures += r.DetFailures
		for k, v := range r.Faults {
			a.Faults[k] += v
		}
		for k, v := range r.Probes {
			a.Probes[k] += v
		}
		for k, v := range r.Known {
			a.Known[k] += v
		}
		if r.WallS > wall {
			wall = r.WallS
		}
		if len(a.Samples) < 3 {
			for _, s := range r.Samples {
				if len(a.Samples) < 3 {
					a.Samples = append(a.Samples, s)
				}
			}
		}
		kb, err := os.ReadFile(filepath.Join(odir, fmt.Sprintf("keys-%d.bin", i)))
		if err == nil {
			for j := 0; j+8 <= len(kb); j += 8 {
				a.keys[binary.LittleEndian.Uint64(kb[j:])] = struct{}{}
			}
		}
	}
	a.SearchS += wall
	a.Builds = append(a.Builds, map[string]any{"race_detector": b.cfg.Race, "tags": b.cfg.Tags, "scenarios": runs, "search_wall_s": round1(wall)})
}

func round1(f float64) float64 { return float64(int64(f*10+0.5)) / 10 }

func (a *aggregate) write(wall float64, violations int) {
	p := a.P
	var stuck []string
	for _, name := range p.Probes {
		if a.Probes[name] == 0 {
			stuck = append(stuck, name)
		}
	}
	for _, name := range p.FaultKinds {
		if a.Faults[name] == 0 {
			stuck = append(stuck, "fault:"+name)
		}
	}
	sort.Strings(stuck)
	samples := make([]any, 0, len(a.Samples))
	for _, s := range a.Samples {
		samples = append(samples, s)
	}
	if len(samples) == 0 {
		samples = append(samples, "no scenario completed")
	}
	distinct := len(a.keys)
	perHour := 0.0
	if a.SearchS > 0 {
		perHour = float64(a.Runs) / a.SearchS * 3600
	}
	cov := map[string]any{
		"evaluations":                     max64(a.evaluations(), 0),
		"distinct_nontrivial":             distinct,
		"rule":                            p.Rule,
		"samples":                         samples,
		"scenarios":                       a.Runs,
		"scenarios_per_hour":              int64(perHour),
		"seeds":                           a.Runs,
		"sequential_dry_runs":             a.DryRuns,
		"logical_steps":                   a.Steps,
		"context_switches":                a.Switches,
		"switches_inside_op":              a.SwitchIn,
		"simulated_time":                  "none — nothing in scope reads a clock; logical steps (scheduler yields) are reported instead",
		"faults_fired":                    a.Faults,
		"probes":                          a.Probes,
		"probes_stuck_at_zero":            stuck,
		"determinism_rechecks":            a.DetChecks,
		"determinism_recheck_divergences": a.DetFailures,
		"builds":                          a.Builds,
		"components":                      p.Components,
		"known_finding_hits":              a.Known,
		"shrink_replays":                  a.ShrinkReplays,
		"exhaustive":                      false,
		"search_wall_s":                   round1(a.SearchS),
		"worker_processes":                runtime.NumCPU(),
		"scheduler":                       "seeded; one turn-holder at a time; hand-off invisible to the race detector",
		"clauses_decided":                 p.Clauses,
		"clauses_not_decided":             p.NotDecided,
	}
	ev := map[string]any{
		"property_id": a.ID,
		"tier":        a.Tier,
		"seed":        a.Seed,
		"level":       p.Level,
		"coverage":    cov,
		"assumptions": p.Assumptions,
		"wall_s":      round1(wall),
		"violations":  violations,
	}
	b, _ := json.MarshalIndent(ev, "", " ")
	edir := buildsys.VerifDir + "/evidence"
	if d := os.Getenv("PBSIM_EVIDENCE_DIR"); d != "" { // self-tests on deliberately broken trees keep their evidence elsewhere
		edir = d
	}
	os.MkdirAll(edir, 0o755)
	os.WriteFile(fmt.Sprintf("%s/%s.json", edir, a.ID), append(b, '\n'), 0o644)
}

func max64(a, b int64) int64 {
	if a > b {
		return a
	}
	return b
}

// ---- replay and shrinking ----

func buildFor(s *scn.Scn, dir string) (built, int) {
	cfg := buildCfg{Race: s.Race, Tags: s.Tags, Share: 1}
	bs, bld, code := buildAll(dir, []buildCfg{cfg})
	if code != 0 {
		return built{}, code
	}
	if p, ok := props[s.Property]; ok && p.Plugin {
		if code := buildPlugin(bld, dir); code != 0 {
			return built{}, code
		}
	}
	return bs[0], 0
}

func runReplay(b built, file, dir string, trace bool, idx int) (int, *scn.Outcome, string) {
	args := []string{"-replay", file}
	if trace {
		args = append(args, "-trace")
	}
	return runReplayArgs(b, dir, idx, args...)
}

func runReplayArgs(b built, dir string, idx int, args ...string) (int, *scn.Outcome, string) {
	outf := filepath.Join(dir, fmt.Sprintf("outcome-%d.json", idx))
	os.Remove(outf)
	args = append(args, "-out", outf)
	cmd := exec.Command(b.bin, args...)
	cmd.Env = workerEnv(dir, 1000+idx)
	done := make(chan struct{})
	var ob []byte
	var err error
	go func() { ob, err = cmd.CombinedOutput(); close(done) }()
	select {
	case <-done:
	case <-time.After(120 * time.Second):
		if cmd.Process != nil {
			cmd.Process.Kill()
		}
		<-done
		return 2, nil, "replay exceeded the watchdog"
	}
	code := 0
	if err != nil {
		if ee, ok := err.(*exec.ExitError); ok {
			code = ee.ExitCode()
		} else {
			return 2, nil, err.Error()
		}
	}
	o := new(scn.Outcome)
	if jb, e := os.ReadFile(outf); e == nil {
		json.Unmarshal(jb, o)
	} else if code != 0 && code != 1 && looksLikeCrash(string(ob)) {
		// the replayed scenario killed the process: that is the (reproduced) violation
		o.Violation = &scn.Violation{Class: "process-crash", Detail: "the process died while running this scenario:\n" + crashHead(string(ob))}
		code = 1
	}
	return code, o, string(ob)
}

func replay(file string, trace bool) int {
	s, err := scn.Load(file)
	if err != nil {
		die(2, "%v", err)
	}
	dir := workRoot()
	defer os.RemoveAll(dir)
	b, code := buildFor(s, dir)
	if code != 0 {
		return code
	}
	code, o, out := runReplay(b, file, dir, trace, 0)
	fmt.Print(out)
	if code == 1 && o != nil && o.Violation != nil {
		if s.Expect != nil && s.Expect.Class != o.Violation.Class {
			fmt.Printf("pbsim: note: the replay file expects class %q, this run produced %q\n", s.Expect.Class, o.Violation.Class)
		}
		fmt.Printf("VIOLATION property=%s replay=%s\n", s.Property, file)
		return 1
	}
	if code == 0 {
		return 0
	}
	return 2
}

func shrink(b built, s *scn.Scn, class string, dir string, budget time.Duration) (*scn.Scn, int, bool) {
	deadline := time.Now().Add(budget)
	replays := 0
	concurrent := false
	for _, p := range s.Phases {
		if len(p.Clients) > 1 {
			concurrent = true
		}
	}
	// try executes candidate c as stored; if that does not fail with the
	// wanted class and the scenario is concurrent, it searches fresh schedules
	// for c. It returns the failing scenario (with its schedule), or nil.
	try := func(c *scn.Scn, idx int, search bool) *scn.Scn {
		f := filepath.Join(dir, fmt.Sprintf("cand-%d.json", idx))
		c.Save(f)
		code, o, _ := runReplay(b, f, dir, false, idx)
		if code == 1 && o != nil && o.Violation != nil && o.Violation.Class == class {
			c.Expect = o.Violation
			return c
		}
		if !search || !concurrent {
			return nil
		}
		c.Expect = &scn.Violation{Class: class}
		c.Save(f)
		sf := filepath.Join(dir, fmt.Sprintf("found-%d.json", idx))
		os.Remove(sf)
		code, _, _ = runReplayArgs(b, dir, idx, "-replay", f, "-search", "48", "-save", sf)
		if code == 1 {
			if fs, err := scn.Load(sf); err == nil && fs.Expect != nil && fs.Expect.Class == class {
				return fs
			}
		}
		return nil
	}
	// first: does the original reproduce at all?
	cur := try(s, 0, false)
	replays++
	if cur == nil {
		// e.g. a race report that the detector's bounded history lost this time:
		// look for the same class again under fresh schedules of the same scenario
		cur = try(s, 0, true)
		replays += 48
	}
	if cur == nil {
		return s, replays, false
	}
	par := runtime.NumCPU()
	for time.Now().Before(deadline) {
		cands := cur.Candidates()
		if len(cands) == 0 {
			break
		}
		improved := false
		for base := 0; base < len(cands) && !improved && time.Now().Before(deadline); base += par {
			end := base + par
			if end > len(cands) {
				end = len(cands)
			}
			rs := make([]*scn.Scn, end-base)
			var wg sync.WaitGroup
			for i := base; i < end; i++ {
				wg.Add(1)
				go func(i int) {
					defer wg.Done()
					rs[i-base] = try(cands[i], 1+i-base, true)
				}(i)
			}
			wg.Wait()
			replays += end - base
			for i := range rs {
				if rs[i] != nil && rs[i].Size() < cur.Size() {
					cur = rs[i]
					improved = true
					break
				}
			}
		}
		if !improved {
			break
		}
	}
	// verify twice in fresh processes
	for i := 0; i < 2; i++ {
		replays++
		if try(cur, 0, false) == nil {
			return cur, replays, false
		}
	}
	return cur, replays, true
}
