package main

import "strings"

type buildCfg struct {
	Race  bool
	Tags  []string
	Share float64 // share of the search time
}

func (c buildCfg) label() string {
	l := "norace"
	if c.Race {
		l = "race"
	}
	if len(c.Tags) > 0 {
		l += "," + strings.Join(c.Tags, ",")
	}
	return l
}

type plan struct {
	Builds  []buildCfg
	Secs    float64 // total seconds of search, divided among builds by share
	MaxRuns int64   // 0 = until the time is up
}

type propCfg struct {
	Level       string
	Rule        string
	Assumptions []string
	Components  map[string]any
	Clauses     string
	NotDecided  string
	Probes      []string // probe names expected to be non-zero
	FaultKinds  []string // fault kinds expected to fire
	Quick       plan
	Thorough    plan
	// C05/C40: a divergence that does not replay is itself a violation.
	IrreproducibleIsViolation bool
	// C40: build protoc-gen-go from the working tree and hand its path to the workers.
	Plugin bool
}

var commonAssumptions = []string{
	"the simsync/simatomic shims preserve the semantics of sync and sync/atomic (each operation is a scheduler yield followed by the real primitive; Lock is a TryLock loop that parks in the scheduler)",
	"the runtime overlay changes only where map hash seeds and iteration offsets come from",
	"serialised execution explores sequentially consistent interleavings at synchronisation-operation granularity; other behaviours exist only for racy code, which the race detector's happens-before analysis decides on the same run",
	"default toolchain go1.23 on linux/amd64 only",
}

func comps(stubs ...string) map[string]any {
	return map[string]any{
		"real": []string{"all protobuf-go packages compiled from /repo's working tree", "Go runtime and standard library (bufio, io, reflect, sort ...)", "race detector (race builds)"},
		"stub": append([]string{"sync and sync/atomic entry points (yield + real primitive)", "source of Go map hash seeds and iteration offsets (seeded)"}, stubs...),
	}
}

var props = map[string]*propCfg{
	"C27": {
		Level:       "fault_enumeration",
		Rule:        "a scenario is a seeded (message sequence, reader kind, bufio size, chunking, MaxSize, fault configuration); for each scenario EVERY truncation point 0..len(stream) is executed (torn-tail enumeration is exhaustive per stream), plus seeded read-error / write-fault runs and a two-client pipe run; evaluations = (stream, cut, reader) executions; a case is non-trivial when at least one frame is non-empty or a fault fired, distinct by hash of (frame sizes, reader kind, buffer size, chunking class, MaxSize class, cut class: boundary/in-size/in-body, fault kind)",
		Assumptions: append([]string{"a conforming Reader returns each byte of the stream exactly once, in order, and reports io.EOF only at the end", "a transient reader error consumes no data"}, commonAssumptions...),
		Components:  comps("the byte stream between MarshalTo and UnmarshalFrom (chunking reader, faulty writer, blocking pipe)"),
		Clauses:     "in-order Equal read-back from any conforming Reader; io.EOF exactly at a clean boundary; io.ErrUnexpectedEOF inside a size or body; SizeTooLargeError with correct fields when size > MaxSize; MarshalTo returns the writer's error unchanged; earlier messages unaffected by later reads (C14 protodelim clause); a frame whose body does not parse (stored byte flipped, or a partial message read without AllowPartial) fails or decodes like proto.Unmarshal of that body, is consumed exactly, and the frames after it read back as written",
		Probes:      []string{"unparseable-frame", "flipped-byte-still-parses", "peek-fast-path", "peek-fallback-readfull", "non-bufio-reader", "two-byte-size", "cut-inside-size-varint", "cut-inside-body", "cut-on-boundary", "size-too-large", "empty-frame", "pipe-writer-crash"},
		FaultKinds:  []string{"torn-tail", "short-read", "eof-with-data", "read-error", "short-write", "write-error", "flipped-stored-byte"},
		Quick:       plan{Builds: []buildCfg{{Race: false, Share: 1}}, Secs: 25},
		Thorough:    plan{Builds: []buildCfg{{Race: false, Share: 3}, {Race: true, Share: 1}}, Secs: 600},
	},
}

func init() {
	props["C18"] = &propCfg{
		Level:       "exploration",
		Rule:        "a scenario is a seeded (lazy-capable type, content, optional legal non-minimal rewriting, 2-4 reader scripts of 1-6 read-only operations, scheduling strategy); every atomic/lock operation of the real code is a pre-emption point; non-trivial = at least one context switch inside an operation; distinct by hash of the switch signature (sequence of (from-client, yield kind, to-client))",
		Assumptions: commonAssumptions,
		Components:  comps(),
		Clauses:     "no data race, no panic, single instance per lazy submessage across all clients and access routes, every result equal to the sequential result (exact for getters, Has, reflection, Equal, Clone, CheckInitialized, deterministic Marshal/Size, JSON, text, Merge-from; for Size and non-deterministic Marshal: no error and output decodes to the content, exact length on minimal encodings), no deadlock/livelock",
		NotDecided:  "executions that are neither sequentially consistent nor flagged by the race detector (none exist for race-free Go programs)",
		Probes:      []string{"cas-lost", "same-addr-cas-by-two-clients", "paths-observed", "denormalised-inside-lazy"},
		FaultKinds:  []string{"sched-switch", "denormalised-wire"},
		Quick:       plan{Builds: []buildCfg{{Race: true, Share: 4}, {Race: true, Tags: []string{"protolegacy"}, Share: 1}}, Secs: 32},
		Thorough:    plan{Builds: []buildCfg{{Race: true, Share: 3}, {Race: false, Share: 2}, {Race: true, Tags: []string{"protoopaque"}, Share: 1}, {Race: true, Tags: []string{"protolegacy"}, Share: 1}}, Secs: 900},
	}
}

func init() {
	props["C19"] = &propCfg{
		Level:       "exploration",
		Rule:        "a scenario is a seeded set of never-used lazily initialised objects and 2-4 client scripts of first-use entry points under a seeded schedule; mode inproc builds fresh copies (compact-builder file descriptors over a local registry, MessageInfo, ExtensionInfo, dynamicpb.Types, registries swapped into GlobalFiles/GlobalTypes); mode process re-executes the worker binary so the process-global generated types, descriptors, legacy wrappers and caches are themselves unused when the clients start; non-trivial = at least one context switch inside an operation; distinct by switch-signature hash",
		Assumptions: append([]string{"first-use observations are compared with the same operations executed sequentially (dry run on a second fresh copy; in process mode: repeated single-threaded after the run)"}, commonAssumptions...),
		Components:  comps("GlobalFiles/GlobalTypes point at fresh registries during in-process runs", "process boundary: os/exec of the same worker binary for one scenario"),
		Clauses:     "no data race, no panic, no deadlock; every client observes the same descriptors (rendered through the accessor set, lookup tables mutually consistent, single instance where promised) and the same codec/reflection behaviour as the sequential run; registry content equals what was registered",
		NotDecided:  "conflicting registrations on the global registries (they panic by policy); first use of objects the harness itself must touch before clients start (type lookup by name, New)",
		Probes:      []string{"once-contended", "lock-parked", "descriptor-instances-compared", "inproc-scenarios", "process-scenarios", "global-registrations"},
		FaultKinds:  []string{"sched-switch", "process-restart"},
		Quick:       plan{Builds: []buildCfg{{Race: true, Share: 1}}, Secs: 55},
		Thorough:    plan{Builds: []buildCfg{{Race: true, Share: 3}, {Race: true, Tags: []string{"protolegacy"}, Share: 1}, {Race: false, Share: 1}}, Secs: 900},
	}
}

func init() {
	props["C14"] = &propCfg{
		Level:       "exploration",
		Rule:        "a scenario is a seeded history over 2-4 message slots and a pool of harness-owned buffers: Unmarshal (lazy / eager / DiscardUnknown / Merge) from an owned buffer, protodelim.UnmarshalFrom off a bufio.Reader, Clone, Merge, then at seeded later instants the faults (owner overwrites or reuses an input buffer, mutates a source message in place, the reader goes on reading) and observations; expected content is tracked as deterministic bytes computed from private copies only; non-trivial = at least one scribble or owner mutation fired; distinct by hash of (type, operation sequence)",
		Assumptions: append([]string{"deterministic Marshal bytes identify message content (decode(det(m)) re-marshals to det(m))", "in-place modification of a message's own byte slices is something an owner may do"}, commonAssumptions...),
		Components:  comps("the owners of buffers and source messages (the harness decides when they overwrite their memory)"),
		Clauses:     "overwriting the input buffer after Unmarshal (lazy or eager) does not change the message; Clone shares no mutable state; after Merge(dst, src) mutating src does not change dst; protodelim messages do not alias the reader's buffer; additionally no byte slice of a message overlaps a caller-owned buffer or another slot's slice (address-range check)",
		Probes:      []string{"lazy-decodes-before-scribble", "clones", "merges", "frames-through-bufio"},
		FaultKinds:  []string{"scribble", "owner-mutation", "reader-buffer-reused"},
		Quick:       plan{Builds: []buildCfg{{Race: false, Share: 1}}, Secs: 25},
		Thorough:    plan{Builds: []buildCfg{{Race: false, Share: 3}, {Race: false, Tags: []string{"protoopaque"}, Share: 1}, {Race: false, Tags: []string{"protolegacy"}, Share: 1}}, Secs: 600},
	}
}

func init() {
	props["C17"] = &propCfg{
		Level:       "exploration",
		Rule:        "a scenario is a seeded (lazy-capable type, 2-3 wire inputs: valid / legal non-minimal / corrupt inside a nested, preferably lazy, submessage; a history of 3-14 reads and writes); each input is decoded lazily and eagerly, verdicts compared, and the history is applied to both in lock-step with every result compared; the schedule dimension is when deferred decoding happens relative to writes, failed re-decodes, merges, clones and owner scribbles; non-trivial = history contains at least one write or re-decode after the first lazy decode; distinct by hash of (type, operation sequence)",
		Assumptions: append([]string{"Size may differ between the two sides while a non-minimal encoding is still held undecoded (documented exception); partial states after a decode that failed on both sides are erased before continuing"}, commonAssumptions...),
		Components:  comps("owner of the original input buffer (scribbles it at a seeded instant)"),
		Clauses:     "same Unmarshal error verdict; same field values, presence, Equal, CheckInitialized, deterministic Marshal bytes, JSON and text content after every history; Marshal output encodes the same content; no panic at any access after a successful Unmarshal",
		Probes:      []string{"failed-decode-mid-history", "initial-decode-rejected-by-both"},
		FaultKinds:  []string{"failed-decode", "denormalised-wire", "scribble"},
		Quick:       plan{Builds: []buildCfg{{Race: false, Share: 3}, {Race: false, Tags: []string{"protolegacy"}, Share: 1}}, Secs: 30},
		Thorough:    plan{Builds: []buildCfg{{Race: false, Share: 3}, {Race: false, Tags: []string{"protoopaque"}, Share: 2}, {Race: false, Tags: []string{"protolegacy"}, Share: 2}, {Race: true, Share: 1}}, Secs: 900},
	}
}

func init() {
	props["C33"] = &propCfg{
		Level:       "exploration",
		Rule:        "a scenario is a seeded universe of 4-9 small files over a deliberately tiny name space (packages a, a.b, a.b.c, b, a.M; names M N E V S x b c W; extension numbers 1-3; 5 paths) plus their message/enum/extension types, and an operation history in one of three modes: sequential on local registries (operation-by-operation equality with the name-table model; full observation unchanged after every failed registration), phased (exclusive registration phases alternating with 2-4 concurrent lookup clients), global (2-4 clients issuing all operations concurrently on registries swapped into GlobalFiles/GlobalTypes; the recorded history, stamped with scheduler event sequence numbers, is checked for linearizability against the model with porcupine); non-trivial = at least one registration conflict, or a concurrent phase; distinct by hash of (mode, operation sequence, final state)",
		Assumptions: append([]string{"the name-table model is written from the documentation of protoregistry; universe files are valid schemas (protodesc.NewFile accepts them)", "conflicting registrations on the global registries panic by policy and are modelled as 'panic, no state change'"}, commonAssumptions...),
		Components:  comps("GlobalFiles/GlobalTypes point at fresh registries in global mode", "porcupine v1.3.0 decides linearizability of recorded histories (Unknown = inconclusive, never reported)"),
		Clauses:     "registration succeeds iff no path, package-versus-declaration, declaration-name or extension-number conflict; failed registration changes nothing; every declaration of a registered file (nested messages, fields, oneofs, enum values in enclosing scope, extensions, services, methods) found by full name; counts and ranges enumerate exactly the registered entries; concurrent Find/Range safe; concurrent use of the global registries linearizable",
		Probes:      []string{"registrations", "registration-conflicts", "mode-sequential", "mode-phased", "mode-global", "concurrent-lookup-phases", "histories-checked-by-porcupine"},
		FaultKinds:  []string{"sched-switch"},
		Quick:       plan{Builds: []buildCfg{{Race: true, Share: 1}}, Secs: 30},
		Thorough:    plan{Builds: []buildCfg{{Race: true, Share: 2}, {Race: false, Share: 1}}, Secs: 600},
	}
}

func init() {
	props["C16"] = &propCfg{
		Level:       "exploration",
		Rule:        "a scenario is a seeded nested message (open, hybrid, opaque, lazily decoded, maps and lists of messages) and a history alternating read phases (1-3 clients concurrently calling Size / Marshal / MarshalAppend / deterministic Marshal / UseCachedSize pairs within their contract / getters / Clone / Equal; all of them fill size caches) with exclusive mutation phases (scalar sets, clears, submessage replacement, in-place mutation of list and map element messages, appends, truncation, unknown-field appends, Merge); the mutation log is the model: every Marshal result must decode to a twin rebuilt from the log into a never-sized message; non-trivial = at least one mutation before a read phase; distinct by hash of (type, operation sequence)",
		Assumptions: append([]string{"UseCachedSize is used only immediately after Size with no intervening access by anyone (its documented contract)", "read phases on trees that still hold a non-minimal lazy encoding are single-client (C18 known finding)"}, commonAssumptions...),
		Components:  comps(),
		Clauses:     "every Marshal result (default, deterministic, MarshalAppend, UseCachedSize pair, of the root and of submessages, of clones) encodes the message's current content; Size equals the size of a never-sized message with the same content (minimal encodings); no size-mismatch error; concurrent readers filling caches do not disturb each other",
		Probes:      []string{"read-phases-after-mutation", "mutations-applied", "concurrent-read-phases"},
		FaultKinds:  []string{"sched-switch", "denormalised-wire"},
		Quick:       plan{Builds: []buildCfg{{Race: false, Share: 2}, {Race: true, Share: 1}}, Secs: 30},
		Thorough:    plan{Builds: []buildCfg{{Race: true, Share: 2}, {Race: false, Share: 2}, {Race: false, Tags: []string{"protoopaque"}, Share: 1}}, Secs: 600},
	}
}

func init() {
	props["C15"] = &propCfg{
		Level:       "exploration",
		Rule:        "a scenario is a seeded message type (open, hybrid, opaque, lazy, extension-bearing, dynamicpb) and a history of 2-12 operations (scalar/message sets and clears, generated setters, oneof switches, list/map edits, in-place element mutation, extension and unknown-field writes, lazy / eager / merging decodes, decodes that fail midway on truncated or corrupt input, partial expansion of lazy content, Marshal) followed by one erasing operation (Unmarshal without Merge, lazily or eagerly; proto.Reset; the generated Reset method); the result is compared with a fresh message after every buffer the message was ever decoded from has been overwritten; non-trivial = every scenario (each ends in an erasing operation after a non-empty history); distinct by hash of (type, operation sequence)",
		Assumptions: commonAssumptions,
		Components:  comps("owner of all earlier input buffers (overwrites them before the comparison)"),
		Clauses:     "Unmarshal without Merge into a message with arbitrary history is Equal to (and has the same deterministic bytes, presence, oneof selection, unknown fields and extension set as) the same bytes decoded into a fresh message; proto.Reset yields a message indistinguishable from a fresh empty one",
		Probes:      []string{"failed-decodes-in-history", "lazy-decodes-in-history", "dynamicpb-scenarios"},
		FaultKinds:  []string{"failed-decode", "scribble"},
		Quick:       plan{Builds: []buildCfg{{Race: false, Share: 1}}, Secs: 25},
		Thorough:    plan{Builds: []buildCfg{{Race: false, Share: 3}, {Race: false, Tags: []string{"protoopaque"}, Share: 1}, {Race: false, Tags: []string{"protolegacy"}, Share: 1}}, Secs: 600},
	}
}

func init() {
	props["C05"] = &propCfg{
		Level:                     "exploration",
		Rule:                      "a scenario is a seeded (type, content); the content is realised as 10-16 messages through different histories (same construction under other map hash seeds, Clone, Merge, eager decode, lazy decode unexpanded and expanded, decode from a legal non-minimal encoding, field-by-field rebuild in shuffled order with set-clear-set / delete-reinsert / grow-past-8-and-shrink detours, dynamicpb decode / rebuild / Clone), each marshalled with Deterministic under three seeds of the Go map iteration order, and for some scenarios in 2-3 re-executions of the worker binary with other process-wide map seeds; evaluations = deterministic marshals compared; non-trivial = scenario produced a non-empty encoding; distinct by hash of (type, shape parameters, reference encoding)",
		Assumptions:               append([]string{"encodings are compared only among messages of the same concrete type (generated type, or dynamicpb over the same descriptor)", "every Go map in the process is behind the runtime seam (pointer-keyed maps with more than 8 entries excepted, none occur)"}, commonAssumptions...),
		Components:                comps("process boundary: os/exec of the same worker binary"),
		Clauses:                   "first sentence: same content => identical Deterministic bytes, across clones, map insertion orders, field-setting orders, repeated marshals, map iteration orders and processes of the same binary; second sentence over those histories (identical encodings => Equal, both argument orders, whatever empty lists/maps a history left behind)",
		NotDecided:                "second sentence for arbitrary unrelated pairs of inputs; it IS checked over the construction histories of one content: variants seen to encode identically must be proto.Equal in both argument orders",
		Probes:                    []string{"variants-compared", "lazy-unexpanded-variants"},
		FaultKinds:                []string{"map-order", "process-restart", "denormalised-wire"},
		Quick:                     plan{Builds: []buildCfg{{Race: false, Share: 1}}, Secs: 40},
		Thorough:                  plan{Builds: []buildCfg{{Race: false, Share: 3}, {Race: false, Tags: []string{"protolegacy"}, Share: 1}, {Race: false, Tags: []string{"protoopaque"}, Share: 1}}, Secs: 600},
		IrreproducibleIsViolation: true,
	}
}

func init() {
	props["C40"] = &propCfg{
		Level:                     "exploration",
		Rule:                      "a scenario is a seeded CodeGeneratorRequest: 1-4 files to generate drawn from the ~100 linked files (dependencies in topological order) and a parameter string (paths=, module=, M remapping, default_api_level, apilevelM, annotate_code); it is run in-process the way protoc-gen-go's main does under 8 seeds of the Go map iteration order, once with file_to_generate permuted, and 2-3 times through the real protoc-gen-go binary (built from the working tree with the runtime seam) in fresh processes with different map seeds, request on stdin, response from stdout; evaluations = generator runs compared; non-trivial = request accepted and response compared; distinct by hash of (files, parameters, reference response)",
		Assumptions:               append([]string{"requests that protogen.Options.New rejects produce no response (stderr, exit 1) and are outside the property; they are counted", "every Go map of the generator is behind the runtime seam"}, commonAssumptions...),
		Components:                comps("process boundary: os/exec of protoc-gen-go built from the working tree; stdin/stdout pipes"),
		Clauses:                   "byte-identical CodeGeneratorResponse for the same request across repeated runs, Go map iteration orders and separate processes; same set of (name, content) when generated files are requested in another order",
		NotDecided:                "random schemas beyond the linked files",
		Probes:                    []string{"plugin-binary-runs", "request-order-permutations"},
		FaultKinds:                []string{"map-order", "process-restart"},
		Quick:                     plan{Builds: []buildCfg{{Race: false, Share: 1}}, Secs: 45},
		Thorough:                  plan{Builds: []buildCfg{{Race: false, Share: 1}}, Secs: 600},
		IrreproducibleIsViolation: true,
		Plugin:                    true,
	}
}

func reflProp(id, clauses, notDecided string, probes []string) *propCfg {
	return &propCfg{
		Level:       "exploration",
		Rule:        "a scenario is a seeded message type (open proto2 / proto3 / editions, hybrid, opaque with more than 32 presence bits, extension-bearing; as generated type or as dynamicpb over the same descriptor) and a history in which exclusive mutation phases (Set incl. zero and default values, Clear, Mutable, Set of empty messages, list Append/Set/Truncate, map Set/Clear, oneof member switches incl. message members, SetUnknown, Set/ClearExtension, Merge, binary input naming several members of one oneof, binary / JSON / text round trips, writes through read-only views, JSON / text input naming two members of a oneof) alternate with phases in which 1-4 clients concurrently issue non-mutating calls (Get, Has, Range, WhichOneof, GetUnknown, Len ...); the same history is applied to an abstract message model; non-trivial = every scenario (at least two mutation phases); distinct by hash of (type, flavor, operation sequence)",
		Assumptions: append([]string{"the abstract message model (written against the protoreflect contract and the language guide, sharing no code with internal/impl or dynamicpb) is the reference; for editions the resolved presence feature is read from the descriptor", "the history follows protoreflect's concurrency contract: mutators are never concurrent with anything"}, commonAssumptions...),
		Components:  comps(),
		Clauses:     clauses,
		NotDecided:  notDecided,
		Probes:      probes,
		FaultKinds:  []string{"sched-switch"},
		Quick:       plan{Builds: []buildCfg{{Race: false, Share: 2}, {Race: true, Share: 1}}, Secs: 30},
		Thorough:    plan{Builds: []buildCfg{{Race: true, Share: 2}, {Race: false, Share: 2}, {Race: false, Tags: []string{"protoopaque"}, Share: 1}}, Secs: 600},
	}
}

func init() {
	props["C28"] = reflProp("C28",
		"after every step the message equals the abstract model: defaults for unpopulated fields, presence, oneof exclusivity, Range visiting exactly the populated fields once, empty read-only composites for unpopulated fields (writing through them panics; obtaining them concurrently does not write: race detector), unknown fields, extension Set/Get/Has/Clear",
		"there are no I/O, time or crash faults for this property; what the simulator adds is the concurrent read phases under a seeded scheduler with race detection, and seeded, shrinkable, replayable histories",
		[]string{"mutations", "concurrent-read-phases", "dynamicpb-scenarios"})
	props["C11"] = reflProp("C11",
		"Has equals model presence after every step (explicit presence once set even to the default, implicit-presence scalars when non-zero, repeated/map when non-empty, oneof members when selected), also through the concurrent read phases; explicit presence survives binary, JSON and text round trips; nothing unpopulated (in particular no implicit-presence zero) appears in the encoding",
		"value / Range / unknown-field mismatches are left to C28 (this check stops a scenario that hits one)",
		[]string{"mutations", "zero-value-sets", "concurrent-read-phases", "dynamicpb-scenarios"})
	props["C12"] = reflProp("C12",
		"after every step at most one member of each oneof is populated and WhichOneof names it (setters, Set/Mutable/Clear, Merge, binary decode with several members: last wins; round trips); JSON and text input naming two members of one oneof is rejected",
		"value / presence mismatches outside oneofs are left to C28 / C11",
		[]string{"mutations", "oneof-operations", "concurrent-read-phases", "dynamicpb-scenarios"})
}
