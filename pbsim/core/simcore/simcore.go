// Package simcore is the scheduler core of pbsim. It is overlaid into the
// repository's import namespace as google.golang.org/protobuf/internal/simcore
// at check time (go build -overlay); nothing of it exists in /repo.
//
// Clients are real goroutines, but exactly one of them holds the turn. The
// turn variable and all other scheduler state are touched only from functions
// marked //go:norace, and waiting is a runtime.Gosched loop, so the hand-off
// adds no happens-before edge that the race detector could see: the detector
// judges the code under test by the synchronisation the code itself performs.
//
// Every function in this file must carry //go:norace.
package simcore

import (
	"runtime"
)

// Kind classifies a yield point.
type Kind uint8

const (
	KOp     Kind = iota // operation boundary in a client script
	KLoad               // atomic load
	KStore              // atomic store
	KCAS                // compare-and-swap
	KAdd                // atomic add
	KLock               // mutex lock / rlock
	KUnlock             // mutex unlock / runlock
	KOnce               // sync.Once.Do entry
	KMap                // sync.Map operation
	KBlock              // client parked on a resource
	KUser               // explicit yield from a harness stub (stream endpoints)
	numKinds
)

var kindNames = [...]string{"op", "load", "store", "cas", "add", "lock", "unlock", "once", "map", "block", "user"}

//go:norace
func (k Kind) String() string { return kindNames[k] }

// Strategy kinds.
const (
	StratTape   = 0 // follow the tape only (replay); default decision is "stay"
	StratRandom = 1 // random walk with stay probability
	StratPCT    = 2 // priority based with d change points
)

// Config describes how one run is scheduled.
type Config struct {
	Clients   int
	Strategy  int
	Seed      uint64
	StayPerm  uint32 // random walk: probability (per 1024) to stay on the current client
	PCTDepth  int    // PCT: number of priority change points
	PCTSteps  int    // PCT: expected number of yields of the run (from a dry run)
	SiteBias  bool   // CAS / store / lock / once sites are 4x more likely to switch
	Tape      []Decision
	MaxSteps  int64 // livelock bound
	KeepTrace bool  // keep the full trace (replay / determinism self-test)
}

// Decision is one entry of the schedule tape: at choice point CP (counted over
// yields at which more than one client was runnable) switch to client To.
// Choice points not on the tape keep the current client (or, when the current
// client cannot run, take the lowest-numbered runnable client).
type Decision struct {
	CP int64 `json:"cp"`
	To int   `json:"to"`
}

// TraceEntry is one context switch.
type TraceEntry struct {
	Step int64  `json:"step"`
	From int    `json:"from"`
	To   int    `json:"to"`
	Kind string `json:"kind"`
	Op   int    `json:"op"` // operation index of the client that was switched out
}

// Stats are the measures of one run.
type Stats struct {
	Steps         int64
	ChoicePoints  int64
	Switches      int64
	SwitchInOp    int64 // switches that happened at a sync point inside an operation
	KindCount     [numKinds]int64
	CASFail       int64
	OnceContended int64 // a client reached a Once whose body was active in another client
	LockContended int64 // a client had to park on a lock
	SameAddrCAS   int64 // CAS issued on an address another client also CASed in this run
	Deadlock      bool
	Livelock      bool
	SigHash       uint64 // hash of the switch signature (from, kind, to)
	TraceHash     uint64 // hash of the whole trace incl. result digests
	Tape          []Decision
	Trace         []TraceEntry
}

const (
	stIdle = iota
	stRunnable
	stBlocked
	stDone
)

type client struct {
	state   int
	blocked uintptr
	opIndex int
	prio    int
}

var (
	active    bool
	turn      int
	clients   []client
	cfg       Config
	st        Stats
	rng       uint64
	tapePos   int
	pctChange []int64
	pctNext   int
	casAddrs  []casAddr // addr -> first client that CASed it (no Go map: map access is race-instrumented inside the runtime)
	aborted   bool
)

type casAddr struct {
	addr uintptr
	who  int
}

func init() { casAddrs = make([]casAddr, 0, 512) }

//go:norace
func next64() uint64 {
	// xorshift64*
	x := rng
	x ^= x >> 12
	x ^= x << 25
	x ^= x >> 27
	rng = x
	return x * 2685821657736338717
}

//go:norace
func mix(h, v uint64) uint64 {
	h ^= v + 0x9e3779b97f4a7c15 + (h << 6) + (h >> 2)
	return h
}

// Active reports whether a scheduled run is in progress.
//
//go:norace
func Active() bool { return active }

// Begin starts a run with n clients. Called by the harness thread before it
// starts the client goroutines.
//
//go:norace
func Begin(c Config) {
	cfg = c
	st = Stats{}
	clients = make([]client, c.Clients)
	for i := range clients {
		clients[i].state = stRunnable
		clients[i].prio = 0
	}
	rng = c.Seed*0x9e3779b97f4a7c15 + 0x1234567
	if rng == 0 {
		rng = 1
	}
	tapePos = 0
	casAddrs = casAddrs[:0]
	aborted = false
	if c.Strategy == StratPCT {
		// initial priorities: a random permutation, higher = runs first
		for i := range clients {
			clients[i].prio = c.PCTDepth + 1 + i
		}
		for i := len(clients) - 1; i > 0; i-- {
			j := int(next64() % uint64(i+1))
			clients[i].prio, clients[j].prio = clients[j].prio, clients[i].prio
		}
		steps := int64(c.PCTSteps)
		if steps < 8 {
			steps = 8
		}
		pctChange = pctChange[:0]
		for i := 0; i < c.PCTDepth; i++ {
			pctChange = append(pctChange, int64(next64()%uint64(steps)))
		}
		// sort ascending (tiny)
		for i := 1; i < len(pctChange); i++ {
			for j := i; j > 0 && pctChange[j] < pctChange[j-1]; j-- {
				pctChange[j], pctChange[j-1] = pctChange[j-1], pctChange[j]
			}
		}
		pctNext = 0
	}
	// first client to run: a choice point like any other
	turn = -1
	active = true
	pick(KOp, -1)
}

// End finishes the run and returns its statistics. Called by the harness
// thread after joining the clients.
//
//go:norace
func End() Stats {
	active = false
	s := st
	if len(clients) > 1 {
		// With one client the number of yields depends on which one-time
		// initialisations this process has already done, and says nothing
		// about the schedule; leave it out of the trace identity.
		s.TraceHash = mix(s.TraceHash, uint64(s.Steps))
	}
	return s
}

// Aborted reports whether the run was aborted (deadlock / livelock); clients
// then run freely to completion without further scheduling.
//
//go:norace
func Aborted() bool { return aborted }

// Enter is called by a client goroutine before its first operation: it waits
// for its turn.
//
//go:norace
func Enter(me int) {
	wait(me)
}

// Exit marks the client as finished and hands the turn on.
//
//go:norace
func Exit(me int) {
	if !active || aborted {
		return
	}
	clients[me].state = stDone
	pick(KOp, me)
}

// OpStart marks an operation boundary of the current client.
//
//go:norace
func OpStart(opIndex int) {
	if !active || aborted {
		return
	}
	me := turn
	clients[me].opIndex = opIndex
	yield(KOp, 0)
}

// Digest folds an operation result digest into the trace hash.
//
//go:norace
func Digest(v uint64) {
	if !active {
		return
	}
	st.TraceHash = mix(st.TraceHash, mix(uint64(turn), v))
}

var events int64

// Stamp returns the next value of a global event sequence number (used to
// stamp invoke/return events of recorded histories; unique, totally ordered).
//
//go:norace
func Stamp() int64 {
	events++
	return events
}

// Current returns the client holding the turn (-1 outside a run).
//
//go:norace
func Current() int {
	if !active {
		return -1
	}
	return turn
}

// Yield is a pre-emption point before a synchronisation operation.
//
//go:norace
func Yield(k Kind, addr uintptr) {
	if !active || aborted {
		return
	}
	if k == KCAS && addr != 0 {
		found := false
		for i := range casAddrs {
			if casAddrs[i].addr == addr {
				found = true
				if c := casAddrs[i].who; c != turn && c != -1 {
					casAddrs[i].who = -1
					st.SameAddrCAS++
				}
				break
			}
		}
		if !found && len(casAddrs) < cap(casAddrs) {
			casAddrs = append(casAddrs, casAddr{addr, turn})
		}
	}
	yield(k, addr)
}

// CASFailed counts a compare-and-swap that lost.
//
//go:norace
func CASFailed() {
	if active {
		st.CASFail++
	}
}

// OnceContended counts a client arriving at a Once whose body is running in
// another client.
//
//go:norace
func OnceContended() {
	if active {
		st.OnceContended++
	}
}

//go:norace
func yield(k Kind, addr uintptr) {
	me := turn
	st.Steps++
	st.KindCount[k]++
	if cfg.MaxSteps > 0 && st.Steps > cfg.MaxSteps {
		st.Livelock = true
		abort()
		return
	}
	pick(k, me)
	if turn != me {
		wait(me)
	}
}

// Block parks the current client until Wake(addr) is called by another
// client. Returns immediately outside a run.
//
//go:norace
func Block(addr uintptr) {
	if !active || aborted {
		runtime.Gosched()
		return
	}
	me := turn
	st.Steps++
	st.KindCount[KBlock]++
	st.LockContended++
	clients[me].state = stBlocked
	clients[me].blocked = addr
	pick(KBlock, me)
	if aborted {
		return
	}
	if turn != me {
		wait(me)
	}
}

// Wake makes every client parked on addr runnable again.
//
//go:norace
func Wake(addr uintptr) {
	if !active || aborted {
		return
	}
	for i := range clients {
		if clients[i].state == stBlocked && clients[i].blocked == addr {
			clients[i].state = stRunnable
		}
	}
}

// AbortHook, if set, is called (on the goroutine that detected it) when the
// run deadlocks or exceeds its step bound. The harness uses it to write the
// outcome and leave the process, because truly deadlocked clients never return.
var AbortHook func(reason string)

//go:norace
func abort() {
	aborted = true
	if AbortHook != nil {
		reason := "livelock"
		if st.Deadlock {
			reason = "deadlock"
		}
		AbortHook(reason)
	}
	// release everybody; execution continues unscheduled so goroutines can
	// finish (or the watchdog kills the process).
	for i := range clients {
		if clients[i].state == stBlocked {
			clients[i].state = stRunnable
		}
	}
}

//go:norace
func wait(me int) {
	for turn != me && !aborted {
		runtime.Gosched()
	}
}

//go:norace
func weight(k Kind) uint64 {
	if !cfg.SiteBias {
		return 1
	}
	switch k {
	case KCAS, KStore, KLock, KOnce, KBlock:
		return 4
	}
	return 1
}

// pick chooses the next client to run. me is the client giving up the turn
// (-1 at the start of the run).
//
//go:norace
func pick(k Kind, me int) {
	var runnable [16]int
	n := 0
	for i := range clients {
		if clients[i].state == stRunnable {
			if n < len(runnable) {
				runnable[n] = i
				n++
			}
		}
	}
	if n == 0 {
		alldone := true
		for i := range clients {
			if clients[i].state != stDone {
				alldone = false
			}
		}
		if !alldone {
			st.Deadlock = true
			abort()
		}
		turn = -2
		return
	}
	meRunnable := me >= 0 && clients[me].state == stRunnable
	choice := runnable[0]
	if meRunnable {
		choice = me
	}
	if n > 1 {
		cp := st.ChoicePoints
		st.ChoicePoints++
		switch cfg.Strategy {
		case StratTape:
			if tapePos < len(cfg.Tape) && cfg.Tape[tapePos].CP == cp {
				to := cfg.Tape[tapePos].To
				tapePos++
				if to >= 0 && to < len(clients) && clients[to].state == stRunnable {
					choice = to
				}
			}
		case StratRandom:
			stay := uint64(cfg.StayPerm)
			if !meRunnable {
				stay = 0
			} else if w := weight(k); w > 1 {
				p := (1024 - stay) * w
				if p > 768 {
					p = 768
				}
				if p > 1024-stay {
					stay = 1024 - p
				}
			}
			r := next64()
			if r%1024 >= stay {
				// choose uniformly among the others (or all, if me not runnable)
				if meRunnable {
					j := int((r >> 16) % uint64(n-1))
					for _, c := range runnable[:n] {
						if c == me {
							continue
						}
						if j == 0 {
							choice = c
							break
						}
						j--
					}
				} else {
					choice = runnable[int((r>>16)%uint64(n))]
				}
			}
		case StratPCT:
			for pctNext < len(pctChange) && st.Steps >= pctChange[pctNext] {
				if me >= 0 {
					clients[me].prio = cfg.PCTDepth - pctNext // below all initial priorities
				}
				pctNext++
			}
			best := -1
			for _, c := range runnable[:n] {
				if best < 0 || clients[c].prio > clients[best].prio {
					best = c
				}
			}
			choice = best
		}
		def := runnable[0]
		if meRunnable {
			def = me
		}
		if choice != def {
			st.Tape = append(st.Tape, Decision{CP: cp, To: choice})
		}
	}
	if choice != me {
		if me >= 0 {
			st.Switches++
			if k != KOp {
				st.SwitchInOp++
			}
			st.SigHash = mix(st.SigHash, uint64(me)<<16|uint64(k)<<8|uint64(choice))
			if cfg.KeepTrace {
				st.Trace = append(st.Trace, TraceEntry{Step: st.Steps, From: me, To: choice, Kind: kindNames[k], Op: clients[me].opIndex})
			}
		}
		st.TraceHash = mix(st.TraceHash, uint64(st.Steps)<<20|uint64(uint8(me))<<12|uint64(k)<<8|uint64(choice))
	}
	turn = choice
}
