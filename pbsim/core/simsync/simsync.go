// Package simsync is the pbsim stand-in for package sync. It is overlaid as
// google.golang.org/protobuf/internal/simsync and every non-test file of the
// repository that imports "sync" is compiled against it instead.
//
// Each operation first offers the scheduler a pre-emption point and then
// performs the real primitive, so the happens-before edges the race detector
// observes are those of the shipped code. Blocking operations are TryLock
// loops that park the client in the scheduler instead of in the Go runtime
// (a client parked in the runtime would keep the turn forever).
package simsync

import (
	"sync"
	"sync/atomic"
	"unsafe"

	"google.golang.org/protobuf/internal/simcore"
)

// Locker is sync.Locker.
type Locker = sync.Locker

// Pool passes through: reuse of pooled scratch objects is not scheduled.
type Pool = sync.Pool

// WaitGroup passes through (the library does not use it on any scheduled path).
type WaitGroup = sync.WaitGroup

// Mutex wraps a real sync.Mutex.
type Mutex struct {
	mu sync.Mutex
}

func (m *Mutex) Lock() {
	if !simcore.Active() {
		m.mu.Lock()
		return
	}
	addr := uintptr(unsafe.Pointer(m))
	simcore.Yield(simcore.KLock, addr)
	for !m.mu.TryLock() {
		simcore.Block(addr)
	}
}

func (m *Mutex) TryLock() bool {
	simcore.Yield(simcore.KLock, uintptr(unsafe.Pointer(m)))
	return m.mu.TryLock()
}

func (m *Mutex) Unlock() {
	addr := uintptr(unsafe.Pointer(m))
	simcore.Yield(simcore.KUnlock, addr)
	m.mu.Unlock()
	simcore.Wake(addr)
}

// RWMutex wraps a real sync.RWMutex.
type RWMutex struct {
	mu sync.RWMutex
	// writers counts Lock calls that are waiting: as with the real RWMutex, a blocked Lock keeps new
	// readers out (which is what makes re-entering RLock a deadlock when a writer arrives in between).
	writers atomic.Int32
}

func (m *RWMutex) Lock() {
	if !simcore.Active() {
		m.mu.Lock()
		return
	}
	addr := uintptr(unsafe.Pointer(m))
	simcore.Yield(simcore.KLock, addr)
	m.writers.Add(1)
	for !m.mu.TryLock() {
		simcore.Block(addr)
	}
	m.writers.Add(-1)
}

func (m *RWMutex) Unlock() {
	addr := uintptr(unsafe.Pointer(m))
	simcore.Yield(simcore.KUnlock, addr)
	m.mu.Unlock()
	simcore.Wake(addr)
}

func (m *RWMutex) RLock() {
	if !simcore.Active() {
		m.mu.RLock()
		return
	}
	addr := uintptr(unsafe.Pointer(m))
	simcore.Yield(simcore.KLock, addr)
	for m.writers.Load() > 0 || !m.mu.TryRLock() {
		simcore.Block(addr)
	}
}

func (m *RWMutex) RUnlock() {
	addr := uintptr(unsafe.Pointer(m))
	simcore.Yield(simcore.KUnlock, addr)
	m.mu.RUnlock()
	simcore.Wake(addr)
}

func (m *RWMutex) TryLock() bool   { return m.mu.TryLock() }
func (m *RWMutex) TryRLock() bool  { return m.mu.TryRLock() }
func (m *RWMutex) RLocker() Locker { return (*rlocker)(m) }

type rlocker RWMutex

func (r *rlocker) Lock()   { (*RWMutex)(r).RLock() }
func (r *rlocker) Unlock() { (*RWMutex)(r).RUnlock() }

// Once is sync.Once's algorithm (atomic done flag + mutex) written over the
// schedulable Mutex, so that a client can be parked inside the initialiser
// while other clients run.
type Once struct {
	done atomic.Uint32
	m    Mutex
}

func (o *Once) Do(f func()) {
	simcore.Yield(simcore.KOnce, uintptr(unsafe.Pointer(o)))
	if o.done.Load() == 0 {
		o.doSlow(f)
	}
}

func (o *Once) doSlow(f func()) {
	addr := uintptr(unsafe.Pointer(&o.m))
	if !simcore.Active() {
		o.m.mu.Lock()
	} else {
		simcore.Yield(simcore.KLock, addr)
		if !o.m.mu.TryLock() {
			simcore.OnceContended()
			for {
				simcore.Block(addr)
				if o.m.mu.TryLock() {
					break
				}
			}
		}
	}
	defer o.m.Unlock()
	if o.done.Load() == 0 {
		defer func() {
			simcore.Yield(simcore.KStore, uintptr(unsafe.Pointer(o)))
			o.done.Store(1)
		}()
		f()
	}
}

// OnceFunc etc. are not used by the repository.

// Map wraps a real sync.Map with a pre-emption point before every operation.
type Map struct {
	m sync.Map
}

func (m *Map) y() { simcore.Yield(simcore.KMap, uintptr(unsafe.Pointer(m))) }

func (m *Map) Load(key any) (value any, ok bool) { m.y(); return m.m.Load(key) }
func (m *Map) Store(key, value any)              { m.y(); m.m.Store(key, value) }
func (m *Map) LoadOrStore(key, value any) (actual any, loaded bool) {
	m.y()
	return m.m.LoadOrStore(key, value)
}
func (m *Map) LoadAndDelete(key any) (value any, loaded bool) { m.y(); return m.m.LoadAndDelete(key) }
func (m *Map) Delete(key any)                                 { m.y(); m.m.Delete(key) }
func (m *Map) Swap(key, value any) (previous any, loaded bool) {
	m.y()
	return m.m.Swap(key, value)
}
func (m *Map) CompareAndSwap(key, old, new any) bool { m.y(); return m.m.CompareAndSwap(key, old, new) }
func (m *Map) CompareAndDelete(key, old any) bool    { m.y(); return m.m.CompareAndDelete(key, old) }
func (m *Map) Range(f func(key, value any) bool)     { m.y(); m.m.Range(f) }
func (m *Map) Clear()                                { m.y(); m.m.Clear() }

// ---- the rest of package sync's surface (a changed tree may use any of it) ----

// Cond is a condition variable whose waiters park in the scheduler.
type Cond struct {
	L Locker
}

func NewCond(l Locker) *Cond { return &Cond{L: l} }

func (c *Cond) Wait() {
	addr := uintptr(unsafe.Pointer(c))
	c.L.Unlock()
	simcore.Block(addr)
	c.L.Lock()
}
func (c *Cond) Signal()    { simcore.Wake(uintptr(unsafe.Pointer(c))) }
func (c *Cond) Broadcast() { simcore.Wake(uintptr(unsafe.Pointer(c))) }

// OnceFunc, OnceValue and OnceValues are sync's helpers over the schedulable Once.
func OnceFunc(f func()) func() {
	var once Once
	return func() { once.Do(f) }
}

func OnceValue[T any](f func() T) func() T {
	var once Once
	var r T
	return func() T {
		once.Do(func() { r = f() })
		return r
	}
}

func OnceValues[T1, T2 any](f func() (T1, T2)) func() (T1, T2) {
	var once Once
	var r1 T1
	var r2 T2
	return func() (T1, T2) {
		once.Do(func() { r1, r2 = f() })
		return r1, r2
	}
}
