// Package simatomic is the pbsim stand-in for package sync/atomic (overlaid as
// google.golang.org/protobuf/internal/simatomic). Every operation is a
// scheduler pre-emption point followed by the real atomic operation.
package simatomic

import (
	"sync/atomic"
	"unsafe"

	"google.golang.org/protobuf/internal/simcore"
)

func LoadInt32(addr *int32) int32 {
	simcore.Yield(simcore.KLoad, uintptr(unsafe.Pointer(addr)))
	return atomic.LoadInt32(addr)
}
func LoadInt64(addr *int64) int64 {
	simcore.Yield(simcore.KLoad, uintptr(unsafe.Pointer(addr)))
	return atomic.LoadInt64(addr)
}
func LoadUint32(addr *uint32) uint32 {
	simcore.Yield(simcore.KLoad, uintptr(unsafe.Pointer(addr)))
	return atomic.LoadUint32(addr)
}
func LoadUint64(addr *uint64) uint64 {
	simcore.Yield(simcore.KLoad, uintptr(unsafe.Pointer(addr)))
	return atomic.LoadUint64(addr)
}
func LoadUintptr(addr *uintptr) uintptr {
	simcore.Yield(simcore.KLoad, uintptr(unsafe.Pointer(addr)))
	return atomic.LoadUintptr(addr)
}
func LoadPointer(addr *unsafe.Pointer) unsafe.Pointer {
	simcore.Yield(simcore.KLoad, uintptr(unsafe.Pointer(addr)))
	return atomic.LoadPointer(addr)
}

func StoreInt32(addr *int32, v int32) {
	simcore.Yield(simcore.KStore, uintptr(unsafe.Pointer(addr)))
	atomic.StoreInt32(addr, v)
}
func StoreInt64(addr *int64, v int64) {
	simcore.Yield(simcore.KStore, uintptr(unsafe.Pointer(addr)))
	atomic.StoreInt64(addr, v)
}
func StoreUint32(addr *uint32, v uint32) {
	simcore.Yield(simcore.KStore, uintptr(unsafe.Pointer(addr)))
	atomic.StoreUint32(addr, v)
}
func StoreUint64(addr *uint64, v uint64) {
	simcore.Yield(simcore.KStore, uintptr(unsafe.Pointer(addr)))
	atomic.StoreUint64(addr, v)
}
func StoreUintptr(addr *uintptr, v uintptr) {
	simcore.Yield(simcore.KStore, uintptr(unsafe.Pointer(addr)))
	atomic.StoreUintptr(addr, v)
}
func StorePointer(addr *unsafe.Pointer, v unsafe.Pointer) {
	simcore.Yield(simcore.KStore, uintptr(unsafe.Pointer(addr)))
	atomic.StorePointer(addr, v)
}

func SwapInt32(addr *int32, v int32) int32 {
	simcore.Yield(simcore.KStore, uintptr(unsafe.Pointer(addr)))
	return atomic.SwapInt32(addr, v)
}
func SwapUint32(addr *uint32, v uint32) uint32 {
	simcore.Yield(simcore.KStore, uintptr(unsafe.Pointer(addr)))
	return atomic.SwapUint32(addr, v)
}
func SwapPointer(addr *unsafe.Pointer, v unsafe.Pointer) unsafe.Pointer {
	simcore.Yield(simcore.KStore, uintptr(unsafe.Pointer(addr)))
	return atomic.SwapPointer(addr, v)
}

func cas(ok bool) bool {
	if !ok {
		simcore.CASFailed()
	}
	return ok
}

func CompareAndSwapInt32(addr *int32, old, new int32) bool {
	simcore.Yield(simcore.KCAS, uintptr(unsafe.Pointer(addr)))
	return cas(atomic.CompareAndSwapInt32(addr, old, new))
}
func CompareAndSwapInt64(addr *int64, old, new int64) bool {
	simcore.Yield(simcore.KCAS, uintptr(unsafe.Pointer(addr)))
	return cas(atomic.CompareAndSwapInt64(addr, old, new))
}
func CompareAndSwapUint32(addr *uint32, old, new uint32) bool {
	simcore.Yield(simcore.KCAS, uintptr(unsafe.Pointer(addr)))
	return cas(atomic.CompareAndSwapUint32(addr, old, new))
}
func CompareAndSwapUint64(addr *uint64, old, new uint64) bool {
	simcore.Yield(simcore.KCAS, uintptr(unsafe.Pointer(addr)))
	return cas(atomic.CompareAndSwapUint64(addr, old, new))
}
func CompareAndSwapUintptr(addr *uintptr, old, new uintptr) bool {
	simcore.Yield(simcore.KCAS, uintptr(unsafe.Pointer(addr)))
	return cas(atomic.CompareAndSwapUintptr(addr, old, new))
}
func CompareAndSwapPointer(addr *unsafe.Pointer, old, new unsafe.Pointer) bool {
	simcore.Yield(simcore.KCAS, uintptr(unsafe.Pointer(addr)))
	return cas(atomic.CompareAndSwapPointer(addr, old, new))
}

func AddInt32(addr *int32, d int32) int32 {
	simcore.Yield(simcore.KAdd, uintptr(unsafe.Pointer(addr)))
	return atomic.AddInt32(addr, d)
}
func AddInt64(addr *int64, d int64) int64 {
	simcore.Yield(simcore.KAdd, uintptr(unsafe.Pointer(addr)))
	return atomic.AddInt64(addr, d)
}
func AddUint32(addr *uint32, d uint32) uint32 {
	simcore.Yield(simcore.KAdd, uintptr(unsafe.Pointer(addr)))
	return atomic.AddUint32(addr, d)
}
func AddUint64(addr *uint64, d uint64) uint64 {
	simcore.Yield(simcore.KAdd, uintptr(unsafe.Pointer(addr)))
	return atomic.AddUint64(addr, d)
}

// Typed atomics.

type Bool struct{ v atomic.Bool }

func (x *Bool) Load() bool {
	simcore.Yield(simcore.KLoad, uintptr(unsafe.Pointer(x)))
	return x.v.Load()
}
func (x *Bool) Store(b bool) { simcore.Yield(simcore.KStore, uintptr(unsafe.Pointer(x))); x.v.Store(b) }
func (x *Bool) CompareAndSwap(o, n bool) bool {
	simcore.Yield(simcore.KCAS, uintptr(unsafe.Pointer(x)))
	return cas(x.v.CompareAndSwap(o, n))
}

type Int32 struct{ v atomic.Int32 }

func (x *Int32) Load() int32 {
	simcore.Yield(simcore.KLoad, uintptr(unsafe.Pointer(x)))
	return x.v.Load()
}
func (x *Int32) Store(n int32) {
	simcore.Yield(simcore.KStore, uintptr(unsafe.Pointer(x)))
	x.v.Store(n)
}
func (x *Int32) Add(d int32) int32 {
	simcore.Yield(simcore.KAdd, uintptr(unsafe.Pointer(x)))
	return x.v.Add(d)
}
func (x *Int32) CompareAndSwap(o, n int32) bool {
	simcore.Yield(simcore.KCAS, uintptr(unsafe.Pointer(x)))
	return cas(x.v.CompareAndSwap(o, n))
}

type Int64 struct{ v atomic.Int64 }

func (x *Int64) Load() int64 {
	simcore.Yield(simcore.KLoad, uintptr(unsafe.Pointer(x)))
	return x.v.Load()
}
func (x *Int64) Store(n int64) {
	simcore.Yield(simcore.KStore, uintptr(unsafe.Pointer(x)))
	x.v.Store(n)
}
func (x *Int64) Add(d int64) int64 {
	simcore.Yield(simcore.KAdd, uintptr(unsafe.Pointer(x)))
	return x.v.Add(d)
}
func (x *Int64) CompareAndSwap(o, n int64) bool {
	simcore.Yield(simcore.KCAS, uintptr(unsafe.Pointer(x)))
	return cas(x.v.CompareAndSwap(o, n))
}

type Uint32 struct{ v atomic.Uint32 }

func (x *Uint32) Load() uint32 {
	simcore.Yield(simcore.KLoad, uintptr(unsafe.Pointer(x)))
	return x.v.Load()
}
func (x *Uint32) Store(n uint32) {
	simcore.Yield(simcore.KStore, uintptr(unsafe.Pointer(x)))
	x.v.Store(n)
}
func (x *Uint32) Add(d uint32) uint32 {
	simcore.Yield(simcore.KAdd, uintptr(unsafe.Pointer(x)))
	return x.v.Add(d)
}
func (x *Uint32) CompareAndSwap(o, n uint32) bool {
	simcore.Yield(simcore.KCAS, uintptr(unsafe.Pointer(x)))
	return cas(x.v.CompareAndSwap(o, n))
}

type Uint64 struct{ v atomic.Uint64 }

func (x *Uint64) Load() uint64 {
	simcore.Yield(simcore.KLoad, uintptr(unsafe.Pointer(x)))
	return x.v.Load()
}
func (x *Uint64) Store(n uint64) {
	simcore.Yield(simcore.KStore, uintptr(unsafe.Pointer(x)))
	x.v.Store(n)
}
func (x *Uint64) Add(d uint64) uint64 {
	simcore.Yield(simcore.KAdd, uintptr(unsafe.Pointer(x)))
	return x.v.Add(d)
}
func (x *Uint64) CompareAndSwap(o, n uint64) bool {
	simcore.Yield(simcore.KCAS, uintptr(unsafe.Pointer(x)))
	return cas(x.v.CompareAndSwap(o, n))
}

type Pointer[T any] struct{ v atomic.Pointer[T] }

func (x *Pointer[T]) Load() *T {
	simcore.Yield(simcore.KLoad, uintptr(unsafe.Pointer(x)))
	return x.v.Load()
}
func (x *Pointer[T]) Store(p *T) {
	simcore.Yield(simcore.KStore, uintptr(unsafe.Pointer(x)))
	x.v.Store(p)
}
func (x *Pointer[T]) CompareAndSwap(o, n *T) bool {
	simcore.Yield(simcore.KCAS, uintptr(unsafe.Pointer(x)))
	return cas(x.v.CompareAndSwap(o, n))
}

type Value struct{ v atomic.Value }

func (x *Value) Load() any {
	simcore.Yield(simcore.KLoad, uintptr(unsafe.Pointer(x)))
	return x.v.Load()
}
func (x *Value) Store(v any) { simcore.Yield(simcore.KStore, uintptr(unsafe.Pointer(x))); x.v.Store(v) }

// ---- the rest of the go1.23 sync/atomic surface (a changed tree may use any of it) ----

func SwapInt64(addr *int64, v int64) int64 {
	simcore.Yield(simcore.KStore, uintptr(unsafe.Pointer(addr)))
	return atomic.SwapInt64(addr, v)
}
func SwapUint64(addr *uint64, v uint64) uint64 {
	simcore.Yield(simcore.KStore, uintptr(unsafe.Pointer(addr)))
	return atomic.SwapUint64(addr, v)
}
func SwapUintptr(addr *uintptr, v uintptr) uintptr {
	simcore.Yield(simcore.KStore, uintptr(unsafe.Pointer(addr)))
	return atomic.SwapUintptr(addr, v)
}
func AddUintptr(addr *uintptr, d uintptr) uintptr {
	simcore.Yield(simcore.KAdd, uintptr(unsafe.Pointer(addr)))
	return atomic.AddUintptr(addr, d)
}
func AndInt32(addr *int32, m int32) int32 {
	simcore.Yield(simcore.KAdd, uintptr(unsafe.Pointer(addr)))
	return atomic.AndInt32(addr, m)
}
func AndUint32(addr *uint32, m uint32) uint32 {
	simcore.Yield(simcore.KAdd, uintptr(unsafe.Pointer(addr)))
	return atomic.AndUint32(addr, m)
}
func AndInt64(addr *int64, m int64) int64 {
	simcore.Yield(simcore.KAdd, uintptr(unsafe.Pointer(addr)))
	return atomic.AndInt64(addr, m)
}
func AndUint64(addr *uint64, m uint64) uint64 {
	simcore.Yield(simcore.KAdd, uintptr(unsafe.Pointer(addr)))
	return atomic.AndUint64(addr, m)
}
func AndUintptr(addr *uintptr, m uintptr) uintptr {
	simcore.Yield(simcore.KAdd, uintptr(unsafe.Pointer(addr)))
	return atomic.AndUintptr(addr, m)
}
func OrInt32(addr *int32, m int32) int32 {
	simcore.Yield(simcore.KAdd, uintptr(unsafe.Pointer(addr)))
	return atomic.OrInt32(addr, m)
}
func OrUint32(addr *uint32, m uint32) uint32 {
	simcore.Yield(simcore.KAdd, uintptr(unsafe.Pointer(addr)))
	return atomic.OrUint32(addr, m)
}
func OrInt64(addr *int64, m int64) int64 {
	simcore.Yield(simcore.KAdd, uintptr(unsafe.Pointer(addr)))
	return atomic.OrInt64(addr, m)
}
func OrUint64(addr *uint64, m uint64) uint64 {
	simcore.Yield(simcore.KAdd, uintptr(unsafe.Pointer(addr)))
	return atomic.OrUint64(addr, m)
}
func OrUintptr(addr *uintptr, m uintptr) uintptr {
	simcore.Yield(simcore.KAdd, uintptr(unsafe.Pointer(addr)))
	return atomic.OrUintptr(addr, m)
}

func (x *Bool) Swap(b bool) bool {
	simcore.Yield(simcore.KStore, uintptr(unsafe.Pointer(x)))
	return x.v.Swap(b)
}
func (x *Int32) Swap(n int32) int32 {
	simcore.Yield(simcore.KStore, uintptr(unsafe.Pointer(x)))
	return x.v.Swap(n)
}
func (x *Int32) And(m int32) int32 {
	simcore.Yield(simcore.KAdd, uintptr(unsafe.Pointer(x)))
	return x.v.And(m)
}
func (x *Int32) Or(m int32) int32 {
	simcore.Yield(simcore.KAdd, uintptr(unsafe.Pointer(x)))
	return x.v.Or(m)
}
func (x *Int64) Swap(n int64) int64 {
	simcore.Yield(simcore.KStore, uintptr(unsafe.Pointer(x)))
	return x.v.Swap(n)
}
func (x *Int64) And(m int64) int64 {
	simcore.Yield(simcore.KAdd, uintptr(unsafe.Pointer(x)))
	return x.v.And(m)
}
func (x *Int64) Or(m int64) int64 {
	simcore.Yield(simcore.KAdd, uintptr(unsafe.Pointer(x)))
	return x.v.Or(m)
}
func (x *Uint32) Swap(n uint32) uint32 {
	simcore.Yield(simcore.KStore, uintptr(unsafe.Pointer(x)))
	return x.v.Swap(n)
}
func (x *Uint32) And(m uint32) uint32 {
	simcore.Yield(simcore.KAdd, uintptr(unsafe.Pointer(x)))
	return x.v.And(m)
}
func (x *Uint32) Or(m uint32) uint32 {
	simcore.Yield(simcore.KAdd, uintptr(unsafe.Pointer(x)))
	return x.v.Or(m)
}
func (x *Uint64) Swap(n uint64) uint64 {
	simcore.Yield(simcore.KStore, uintptr(unsafe.Pointer(x)))
	return x.v.Swap(n)
}
func (x *Uint64) And(m uint64) uint64 {
	simcore.Yield(simcore.KAdd, uintptr(unsafe.Pointer(x)))
	return x.v.And(m)
}
func (x *Uint64) Or(m uint64) uint64 {
	simcore.Yield(simcore.KAdd, uintptr(unsafe.Pointer(x)))
	return x.v.Or(m)
}

type Uintptr struct{ v atomic.Uintptr }

func (x *Uintptr) Load() uintptr {
	simcore.Yield(simcore.KLoad, uintptr(unsafe.Pointer(x)))
	return x.v.Load()
}
func (x *Uintptr) Store(n uintptr) {
	simcore.Yield(simcore.KStore, uintptr(unsafe.Pointer(x)))
	x.v.Store(n)
}
func (x *Uintptr) Swap(n uintptr) uintptr {
	simcore.Yield(simcore.KStore, uintptr(unsafe.Pointer(x)))
	return x.v.Swap(n)
}
func (x *Uintptr) Add(d uintptr) uintptr {
	simcore.Yield(simcore.KAdd, uintptr(unsafe.Pointer(x)))
	return x.v.Add(d)
}
func (x *Uintptr) CompareAndSwap(o, n uintptr) bool {
	simcore.Yield(simcore.KCAS, uintptr(unsafe.Pointer(x)))
	return cas(x.v.CompareAndSwap(o, n))
}

func (x *Pointer[T]) Swap(p *T) *T {
	simcore.Yield(simcore.KStore, uintptr(unsafe.Pointer(x)))
	return x.v.Swap(p)
}
func (x *Value) Swap(v any) any {
	simcore.Yield(simcore.KStore, uintptr(unsafe.Pointer(x)))
	return x.v.Swap(v)
}
func (x *Value) CompareAndSwap(o, n any) bool {
	simcore.Yield(simcore.KCAS, uintptr(unsafe.Pointer(x)))
	return cas(x.v.CompareAndSwap(o, n))
}
