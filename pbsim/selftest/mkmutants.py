#!/usr/bin/env python3
"""Regenerates the sensitivity mutants (one-line property-breaking edits) as
diffs against /repo's HEAD. Run with /repo clean. Each mutant is (name, file,
old, new[, occurrence])."""
import subprocess, sys, os

OUT = '/verif/pbsim/selftest/mutants/'
M = [
 # ---- C18
 ('c18-cas-to-store', 'internal/impl/pointer_unsafe_opaque.go',
  'if atomic.CompareAndSwapPointer((*unsafe.Pointer)(p.p), unsafe.Pointer(nil), v.p) {\n\t\treturn v',
  'if atomic.LoadPointer((*unsafe.Pointer)(p.p)) == nil {\n\t\tatomic.StorePointer((*unsafe.Pointer)(p.p), v.p)\n\t\treturn v'),
 ('c18-sizecache-plain-store', 'internal/impl/encode.go',
  '\t\t\tatomic.StoreInt32(p.Apply(mi.sizecacheOffset).Int32(), int32(size+1))\n\t\t}\n\t}\n\treturn size\n}\n\n// marshal is',
  '\t\t\t*p.Apply(mi.sizecacheOffset).Int32() = int32(size + 1)\n\t\t}\n\t}\n\treturn size\n}\n\n// marshal is'),
 ('c18-publish-before-decode', 'internal/impl/lazy.go',
  '''	fp := pointerOfValue(reflect.New(f.ft))
	if multipleEntries != nil {''',
  '''	fp := pointerOfValue(reflect.New(f.ft))
	if multipleEntries == nil {
		p.Apply(f.offset).AtomicSetPointerIfNil(fp.Elem())
	}
	if multipleEntries != nil {'''),
 # ---- C19
 ('c19-file-once-early', 'internal/filedesc/desc.go',
  '''	if fd.L2 == nil {
		fd.lazyRawInit() // recursively initializes all L2 structures
	}
	atomic.StoreUint32(&fd.once, 1)''',
  '''	atomic.StoreUint32(&fd.once, 1)
	if fd.L2 == nil {
		fd.lazyRawInit() // recursively initializes all L2 structures
	}'''),
 ('c19-mi-initdone-early', 'internal/impl/message.go',
  '''	mi.makeReflectFuncs(t, si)
	mi.makeCoderMethods(t, si)

	atomic.StoreUint32(&mi.initDone, 1)''',
  '''	mi.makeReflectFuncs(t, si)
	atomic.StoreUint32(&mi.initDone, 1)
	mi.makeCoderMethods(t, si)
'''),
 # ---- C14
 ('c14-lazy-buffer-not-copied', 'internal/impl/lazy.go',
  '\t\t\t\tb = append([]byte{}, b...)\n', '\t\t\t\tb = b[:len(b):len(b)]\n'),
 ('c14-bytes-alias-input', 'internal/impl/codec_gen.go',
  '\t*p.Bytes() = append(emptyBuf[:], v...)\n', '\t*p.Bytes() = v[:len(v):len(v)]\n'),
 ('c14-mergebytes-shares', 'internal/impl/merge.go',
  '\t*dst.Bytes() = append(emptyBuf[:], *src.Bytes()...)\n', '\t*dst.Bytes() = *src.Bytes()\n'),
 ('c14-unknown-shares', 'internal/impl/merge.go',
  '\t\t\t*du = append(*du, *su...)\n', '\t\t\tif len(*du) == 0 {\n\t\t\t\t*du = *su\n\t\t\t} else {\n\t\t\t\t*du = append(*du, *su...)\n\t\t\t}\n'),
 ('c14-clonebytes-shares', 'proto/merge.go',
  '\treturn protoreflect.ValueOfBytes(append([]byte{}, v.Bytes()...))\n', '\treturn v\n'),
 ('c14-protodelim-alias', 'encoding/protodelim/protodelim.go',
  '\tif err := o.Unmarshal(b, m); err != nil {', '\to.UnmarshalOptions.Merge = o.UnmarshalOptions.Merge\n\tif err := (protoAlias{o.UnmarshalOptions}).unmarshal(b, m); err != nil {'),
 # ---- C33
 ('c33-pkg-conflict-ignored', 'reflect/protoregistry/registry.go',
  '\t\tcase nil, *packageDescriptor:\n\t\tdefault:\n', '\t\tcase nil, *packageDescriptor, protoreflect.EnumValueDescriptor:\n\t\tdefault:\n'),
 ('c33-insert-before-check', 'reflect/protoregistry/registry.go',
  '\tvar err error\n\tvar hasConflict bool\n\trangeTopLevelDescriptors(file, func(d protoreflect.Descriptor) {\n\t\tif prev := r.descsByName[d.FullName()]; prev != nil {',
  '\tvar err error\n\tvar hasConflict bool\n\trangeTopLevelDescriptors(file, func(d protoreflect.Descriptor) {\n\t\tif prev := r.descsByName[d.FullName()]; prev == nil {\n\t\t\tr.descsByName[d.FullName()] = d\n\t\t} else {'),
 ('c33-numfiles-not-counted', 'reflect/protoregistry/registry.go',
  '\tr.filesByPath[path] = append(r.filesByPath[path], file)\n\tr.numFiles++\n', '\tr.filesByPath[path] = append(r.filesByPath[path], file)\n\tif len(r.filesByPath) > r.numFiles {\n\t\tr.numFiles = len(r.filesByPath)\n\t}\n'),
 ('c33-find-no-rlock', 'reflect/protoregistry/registry.go',
  'func (r *Types) FindExtensionByNumber(message protoreflect.FullName, field protoreflect.FieldNumber) (protoreflect.ExtensionType, error) {\n\tif r == nil {\n\t\treturn nil, NotFound\n\t}\n\tif r == GlobalTypes {\n\t\tglobalMutex.RLock()\n\t\tdefer globalMutex.RUnlock()\n\t}\n',
  'func (r *Types) FindExtensionByNumber(message protoreflect.FullName, field protoreflect.FieldNumber) (protoreflect.ExtensionType, error) {\n\tif r == nil {\n\t\treturn nil, NotFound\n\t}\n'),
 ('c33-extnum-conflict-dropped', 'reflect/protoregistry/registry.go',
  '\tif prev := r.extensionsByMessage[message][field]; prev != nil {', '\tif prev := r.extensionsByMessage[message][field]; prev != nil && prev == xt {'),
 ('c33-nested-enumvalue-missed', 'reflect/protoregistry/registry.go',
  '\t\tfor i := md.Enums().Len() - 1; i >= 0; i-- {', '\t\tfor i := md.Enums().Len() - 1; i > 0; i-- {'),
 # ---- C16
 ('c16-size-trusts-cache', 'internal/impl/encode.go',
  '\tif opts.UseCachedSize() && mi.sizecacheOffset.IsValid() {', '\tif mi.sizecacheOffset.IsValid() {'),
 ('c16-append-trusts-cache', 'proto/encode.go',
  '\t\tif methods.Size != nil {\n\t\t\tsout :=', '\t\tif methods.Size != nil && cap(b) > 0 {\n\t\t\tin.Flags |= protoiface.MarshalUseCachedSize\n\t\t} else if methods.Size != nil {\n\t\t\tsout :='),
 # ---- C15
 ('c15-no-reset-on-empty-input', 'proto/decode.go',
  '\tif !o.Merge {\n\t\tReset(m.Interface())\n\t}', '\tif !o.Merge && len(b) > 0 {\n\t\tReset(m.Interface())\n\t}'),
 ('c15-reset-keeps-unknown', 'proto/reset.go',
  '\t// Clear unknown fields.\n\tm.SetUnknown(nil)\n', '\t// Clear unknown fields.\n\tif len(m.GetUnknown()) > 64 {\n\t\tm.SetUnknown(nil)\n\t}\n'),
 ('c15-reset-keeps-extensions', 'proto/reset.go',
  '\tm.Range(func(fd protoreflect.FieldDescriptor, _ protoreflect.Value) bool {\n\t\tm.Clear(fd)\n\t\treturn true\n\t})', '\tm.Range(func(fd protoreflect.FieldDescriptor, _ protoreflect.Value) bool {\n\t\tif !fd.IsExtension() || fd.IsList() {\n\t\t\tm.Clear(fd)\n\t\t}\n\t\treturn true\n\t})'),
 # ---- C05
 ('c05-string-keys-unsorted', 'internal/impl/codec_map.go',
  '\t\tcase reflect.String:\n\t\t\treturn keys[i].String() < keys[j].String()\n', '\t\tcase reflect.String:\n\t\t\treturn len(keys[i].String()) < len(keys[j].String())\n'),
 ('c05-extensions-unsorted', 'internal/impl/encode.go',
  '\t\tsort.Ints(keys)\n\t\tvar err error', '\t\tif len(keys) > 3 {\n\t\t\tsort.Ints(keys)\n\t\t}\n\t\tvar err error'),
 ('c05-lazy-passthrough-under-deterministic', 'internal/impl/encode.go',
  'func lazyFields(opts marshalOptions) bool {\n\t// When deterministic marshaling is requested, force an unmarshal for lazy\n\t// fields to produce a deterministic result, instead of passing through\n\t// bytes lazily that may or may not match what Go Protobuf would produce.\n\treturn opts.flags&piface.MarshalDeterministic == 0',
  'func lazyFields(opts marshalOptions) bool {\n\t// When deterministic marshaling is requested, force an unmarshal for lazy\n\t// fields to produce a deterministic result, instead of passing through\n\t// bytes lazily that may or may not match what Go Protobuf would produce.\n\treturn true'),
 ('c05-dynamic-map-any-order', 'proto/encode.go',
  '\tkeyOrder := order.AnyKeyOrder\n\tif o.Deterministic {\n\t\tkeyOrder = order.GenericKeyOrder\n\t}', '\tkeyOrder := order.AnyKeyOrder\n\tif o.Deterministic && keyf.Kind() != protoreflect.StringKind {\n\t\tkeyOrder = order.GenericKeyOrder\n\t}'),
 ('c05-bool-keys-unsorted', 'internal/impl/codec_map.go',
  '\t\tcase reflect.Bool:\n\t\t\treturn !keys[i].Bool() && keys[j].Bool()\n', '\t\tcase reflect.Bool:\n\t\t\treturn false\n'),
 # ---- C40
 ('c40-imports-unsorted', 'compiler/protogen/protogen.go',
  '\tsort.Slice(importPaths, func(i, j int) bool {', '\tsort.Slice(importPaths[:0], func(i, j int) bool {'),
 # ---- C28 / C11 / C12
 ('c11-presence-word-index', 'internal/impl/presence.go',
  '\toffset := uintptr(num) / (siz * bitsPerByte) * siz\n', '\toffset := uintptr(num) / (siz * bitsPerByte * 2) * siz\n'),
 ('c12-dynamic-set-keeps-others', 'types/dynamicpb/dynamic.go',
  '\tm.clearOtherOneofFields(fd)\n\tm.known[fd.Number()] = v\n', '\tif fd.Message() == nil {\n\t\tm.clearOtherOneofFields(fd)\n\t}\n\tm.known[fd.Number()] = v\n'),
 ('c28-mutable-detached', 'internal/impl/message_opaque.go',
  '\t\t\t\t\tmp = pointerOfValue(conv.GoValueOf(conv.New()))\n\t\t\t\t\tfp.AtomicSetPointer(mp)\n\t\t\t\t\tmi.setPresent(p, index)\n', '\t\t\t\t\tmp = pointerOfValue(conv.GoValueOf(conv.New()))\n\t\t\t\t\tmi.setPresent(p, index)\n'),
 ('c28-get-allocates', 'internal/impl/message_opaque.go',
  '\t\t\tif p.IsNil() || !mi.present(p, index) {\n\t\t\t\treturn conv.Zero()\n\t\t\t}\n\t\t\tfp := p.Apply(fieldOffset)\n\t\t\tmp := fp.AtomicGetPointer()\n\t\t\tif mp.IsNil() {\n\t\t\t\t// Lazily unmarshal this field.',
  '\t\t\tif p.IsNil() {\n\t\t\t\treturn conv.Zero()\n\t\t\t}\n\t\t\tif !mi.present(p, index) {\n\t\t\t\tnp := pointerOfValue(conv.GoValueOf(conv.New()))\n\t\t\t\tp.Apply(fieldOffset).AtomicSetPointer(np)\n\t\t\t\treturn conv.PBValueOf(np.AsValueOf(elemType))\n\t\t\t}\n\t\t\tfp := p.Apply(fieldOffset)\n\t\t\tmp := fp.AtomicGetPointer()\n\t\t\tif mp.IsNil() {\n\t\t\t\t// Lazily unmarshal this field.'),
 ('c11-clear-keeps-presence', 'internal/impl/message_opaque.go',
  '\t\tclear: func(p pointer) {\n\t\t\tmi.clearPresent(p, index)\n\t\t\tp.Apply(fieldOffset).AtomicSetNilPointer()\n\t\t},', '\t\tclear: func(p pointer) {\n\t\t\tp.Apply(fieldOffset).AtomicSetNilPointer()\n\t\t},'),
 ('c12-json-seen-oneofs-off', 'encoding/protojson/decode.go',
  '\t\t\tif seenOneofs.Has(idx) {', '\t\t\tif seenOneofs.Has(idx) && fd.Message() != nil {'),
 # ---- C27
 ('c27-eof-inside-size', 'encoding/protodelim/protodelim.go',
  'if err == io.EOF && i != 0 {', 'if err == io.EOF && i < 0 {'),
 ('c27-maxsize-off-by-one', 'encoding/protodelim/protodelim.go',
  '} else if size > uint64(maxSize) {', '} else if size >= uint64(maxSize) {'),
 ('c27-body-eof', 'encoding/protodelim/protodelim.go',
  '\tif err == io.EOF {\n\t\treturn io.ErrUnexpectedEOF\n\t}\n', '\tif err == io.EOF && size == 0 {\n\t\treturn io.ErrUnexpectedEOF\n\t}\n'),
]

def run(*a, **k):
    return subprocess.run(a, capture_output=True, text=True, **k)

def main():
    os.makedirs(OUT, exist_ok=True)
    if run('git', '-C', '/repo', 'status', '--porcelain').stdout.strip():
        sys.exit('/repo is not clean')
    only = set(sys.argv[1:])
    for name, path, old, new, *rest in M:
        if only and name not in only:
            continue
        if name == 'c14-protodelim-alias':
            continue  # needs a helper type; written by hand
        f = '/repo/' + path
        s = open(f).read()
        if old not in s:
            print('PATTERN MISSING', name)
            continue
        open(f, 'w').write(s.replace(old, new, 1))
        d = run('git', '-C', '/repo', 'diff').stdout
        open(OUT + name + '.diff', 'w').write(d)
        run('git', '-C', '/repo', 'checkout', '--', '.')
        print('wrote', name)

main()
