#!/bin/bash
# run_mutants.sh <prefix> [secs]  — tries every mutant whose name starts with <prefix> (e.g. c14) against its property
cd /verif/pbsim || exit 2
pre=$1; secs=${2:-15}
for d in selftest/mutants/${pre}*.diff; do
  id=$(basename "$d" | cut -d- -f1 | tr a-z A-Z)
  ./selftest/try_mutant.sh "$d" "$id" "$secs" 2>&1 | grep "^RESULT\|try_mutant:\|failed"
done
