#!/bin/bash
# run_seeded.sh [secs] [name-prefix] — runs every stored seeded change (/verif/seeded/<name>/patch.diff) against the
# quick check of the property it breaks (through the build overlay; /repo untouched) and prints one line each.
# A regression test of the framework itself: every line must say DETECTED.
root=$(cd "$(dirname "$0")/../.." && pwd)
secs=${1:-40}; pre=${2:-}
cd "$root/pbsim" || exit 2
miss=0
for d in "$root"/seeded/${pre}*/; do
  name=$(basename "$d"); id=${name%%-*}
  pf="$d/patch.diff"; [ -f "$d/patch.current.diff" ] && pf="$d/patch.current.diff"
  r=$(./selftest/try_mutant.sh "$pf" "$id" "$secs" 2>&1 | grep "^RESULT")
  echo "$name: ${r##*: }"
  case "$r" in *DETECTED) ;; *) miss=$((miss+1));; esac
done
echo "not detected: $miss"
