#!/bin/bash
# confirm_seed.sh <id> <worktree> <seed-dir> <demo-destination-relative-to-worktree> -- <go test args>
# Confirms a seeded change in its scratch worktree: builds, runs the pinned suite with the
# change, runs the demonstration with and without the change. Prints CONFIRMED or why not.
id=$1; wt=$2; sd=$3; dest=$4; shift 5
export GOFLAGS=-mod=mod GOPROXY=off GOSUMDB=off GOTOOLCHAIN=local
cd "$wt" || exit 2
git checkout -q -- . && git clean -fdq
git apply "$sd/patch.diff" || { echo "$id: patch does not apply"; exit 1; }
go build ./... 2>&1 | grep -v conda | head -5
if ! go test -vet=off -count=1 ./... > "$sd/confirm_suite.log" 2>&1; then echo "$id: SUITE FAILS with the change"; grep -v "^ok\|no test files" "$sd/confirm_suite.log" | head; exit 1; fi
mkdir -p "$(dirname "$dest")"; cp "$sd/demo_test.go" "$dest"
go test -vet=off -count=1 "$@" > "$sd/confirm_demo_with.log" 2>&1; with=$?
git apply -R "$sd/patch.diff"
go test -vet=off -count=1 "$@" > "$sd/confirm_demo_without.log" 2>&1; without=$?
rm -f "$dest"; rmdir "$(dirname "$dest")" 2>/dev/null
git checkout -q -- . && git clean -fdq
if [ $with -ne 0 ] && [ $without -eq 0 ]; then echo "$id: CONFIRMED (suite passes with the change; demo fails with it, passes without it)"; else echo "$id: NOT CONFIRMED (demo exit with change=$with, without=$without)"; fi
