#!/bin/bash
# try_mutant.sh <patch.diff> <ID> [secs] [tier]
# Applies a deliberate property-breaking patch to /repo's working tree, runs the
# check, and restores the tree. Prints DETECTED / MISSED. Never leaves /repo modified.
set -u
patch=$(readlink -f "$1"); id=$2; secs=${3:-20}; tier=${4:-quick}
cd /repo || exit 2
if [ -n "$(git status --porcelain)" ]; then echo "try_mutant: /repo is not clean" >&2; exit 2; fi
if ! git apply --recount --whitespace=nowarn "$patch"; then echo "try_mutant: patch does not apply" >&2; exit 2; fi
trap 'git -C /repo checkout -- . ; git -C /repo clean -fdq' EXIT
mkdir -p /verif/.work/mutant-replays
out=$(cd /verif && PBSIM_SECS=$secs PBSIM_REPLAY_DIR=/verif/.work/mutant-replays PBSIM_EVIDENCE_DIR=/verif/.work/mutant-evidence ./check "$id" "$tier" 2>&1 | grep -v conda)
code=$?
echo "$out" | tail -6
if echo "$out" | grep -q "^VIOLATION property=$id"; then echo "RESULT $(basename "$patch") $id: DETECTED"; else echo "RESULT $(basename "$patch") $id: MISSED"; fi
