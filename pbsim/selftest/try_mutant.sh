#!/bin/bash
# try_mutant.sh <patch.diff> <ID> [secs] [tier]
# Runs a check against /repo's tree with a deliberate property-breaking patch
# applied THROUGH THE BUILD OVERLAY (PBSIM_MUTANT_DIFF): /repo itself is not
# modified, so this can run next to other checks. Prints DETECTED / MISSED.
set -u
patch=$(readlink -f "$1"); id=$2; secs=${3:-20}; tier=${4:-quick}
root=$(cd "$(dirname "$0")/../.." && pwd)
mkdir -p $root/.work/mutant-replays
out=$(cd $root && PBSIM_MUTANT_DIFF=$patch PBSIM_SECS=$secs PBSIM_REPLAY_DIR=$root/.work/mutant-replays PBSIM_EVIDENCE_DIR=$root/.work/mutant-evidence ./check "$id" "$tier" 2>&1 | grep -v conda)
echo "$out" | tail -6
if echo "$out" | grep -q "^VIOLATION property=$id"; then echo "RESULT $(basename "$patch") $id: DETECTED"
elif echo "$out" | grep -q "building the instrumented worker .* failed\|patch failed\|PBSIM_MUTANT_DIFF"; then echo "$out" | grep -A8 "failed" | head -12; echo "RESULT $(basename "$patch") $id: BUILD-FAILED (not a result)"
else echo "RESULT $(basename "$patch") $id: MISSED"; fi
