package gen

import (
	"fmt"
	"os"
	"sort"

	"google.golang.org/protobuf/proto"
	"google.golang.org/protobuf/reflect/protodesc"
	"google.golang.org/protobuf/reflect/protoreflect"
	"google.golang.org/protobuf/reflect/protoregistry"
	"google.golang.org/protobuf/types/descriptorpb"
	"google.golang.org/protobuf/types/dynamicpb"

	// Link the test-proto corpus (registers with the global registries).
	_ "google.golang.org/protobuf/internal/testprotos/conformance"
	_ "google.golang.org/protobuf/internal/testprotos/conformance/editionsmigration"
	_ "google.golang.org/protobuf/internal/testprotos/editionsfuzztest"
	_ "google.golang.org/protobuf/internal/testprotos/enums"
	_ "google.golang.org/protobuf/internal/testprotos/lazy"
	_ "google.golang.org/protobuf/internal/testprotos/lazy/lazy_hybrid"
	_ "google.golang.org/protobuf/internal/testprotos/lazy/lazy_opaque"
	_ "google.golang.org/protobuf/internal/testprotos/messageset/messagesetpb"
	_ "google.golang.org/protobuf/internal/testprotos/messageset/msetextpb"
	_ "google.golang.org/protobuf/internal/testprotos/mixed"
	_ "google.golang.org/protobuf/internal/testprotos/news"
	_ "google.golang.org/protobuf/internal/testprotos/order"
	_ "google.golang.org/protobuf/internal/testprotos/required"
	_ "google.golang.org/protobuf/internal/testprotos/required/required_hybrid"
	_ "google.golang.org/protobuf/internal/testprotos/required/required_opaque"
	_ "google.golang.org/protobuf/internal/testprotos/test"
	_ "google.golang.org/protobuf/internal/testprotos/test3"
	_ "google.golang.org/protobuf/internal/testprotos/test3/test3_hybrid"
	_ "google.golang.org/protobuf/internal/testprotos/test3/test3_opaque"
	_ "google.golang.org/protobuf/internal/testprotos/testeditions"
	_ "google.golang.org/protobuf/internal/testprotos/testeditions/testeditions_hybrid"
	_ "google.golang.org/protobuf/internal/testprotos/testeditions/testeditions_opaque"
	_ "google.golang.org/protobuf/internal/testprotos/textpb2"
	_ "google.golang.org/protobuf/internal/testprotos/textpb3"
	_ "google.golang.org/protobuf/internal/testprotos/textpbeditions"
	// generator test schemas: more import shapes for C40 (they register under their own packages)
	_ "google.golang.org/protobuf/cmd/protoc-gen-go/testdata/annotations"
	_ "google.golang.org/protobuf/cmd/protoc-gen-go/testdata/comments"
	_ "google.golang.org/protobuf/cmd/protoc-gen-go/testdata/enumprefix"
	_ "google.golang.org/protobuf/cmd/protoc-gen-go/testdata/extensions/base"
	_ "google.golang.org/protobuf/cmd/protoc-gen-go/testdata/extensions/ext"
	_ "google.golang.org/protobuf/cmd/protoc-gen-go/testdata/extensions/extra"
	_ "google.golang.org/protobuf/cmd/protoc-gen-go/testdata/featureresolution"
	_ "google.golang.org/protobuf/cmd/protoc-gen-go/testdata/features"
	_ "google.golang.org/protobuf/cmd/protoc-gen-go/testdata/fieldnames"
	_ "google.golang.org/protobuf/cmd/protoc-gen-go/testdata/import_option"
	_ "google.golang.org/protobuf/cmd/protoc-gen-go/testdata/import_option_custom"
	_ "google.golang.org/protobuf/cmd/protoc-gen-go/testdata/import_option_unlinked"
	_ "google.golang.org/protobuf/cmd/protoc-gen-go/testdata/import_public"
	_ "google.golang.org/protobuf/cmd/protoc-gen-go/testdata/import_public/sub"
	_ "google.golang.org/protobuf/cmd/protoc-gen-go/testdata/import_public/sub2"
	_ "google.golang.org/protobuf/cmd/protoc-gen-go/testdata/imports"
	_ "google.golang.org/protobuf/cmd/protoc-gen-go/testdata/imports/fmt"
	_ "google.golang.org/protobuf/cmd/protoc-gen-go/testdata/imports/test_a_1"
	_ "google.golang.org/protobuf/cmd/protoc-gen-go/testdata/imports/test_a_2"
	_ "google.golang.org/protobuf/cmd/protoc-gen-go/testdata/imports/test_b_1"
	_ "google.golang.org/protobuf/cmd/protoc-gen-go/testdata/issue780_oneof_conflict"
	_ "google.golang.org/protobuf/cmd/protoc-gen-go/testdata/nameclash/test_name_clash_hybrid"
	_ "google.golang.org/protobuf/cmd/protoc-gen-go/testdata/nameclash/test_name_clash_opaque"
	_ "google.golang.org/protobuf/cmd/protoc-gen-go/testdata/nameclash/test_name_clash_open"
	_ "google.golang.org/protobuf/cmd/protoc-gen-go/testdata/nopackage"
	_ "google.golang.org/protobuf/cmd/protoc-gen-go/testdata/proto2"
	_ "google.golang.org/protobuf/cmd/protoc-gen-go/testdata/proto3"
	_ "google.golang.org/protobuf/cmd/protoc-gen-go/testdata/protoeditions"
	_ "google.golang.org/protobuf/cmd/protoc-gen-go/testdata/retention"
	_ "google.golang.org/protobuf/cmd/protoc-gen-go/testdata/visibility"
	_ "google.golang.org/protobuf/types/known/anypb"
	_ "google.golang.org/protobuf/types/known/durationpb"
	_ "google.golang.org/protobuf/types/known/structpb"
	_ "google.golang.org/protobuf/types/known/timestamppb"
	_ "google.golang.org/protobuf/types/known/wrapperspb"
	_ "google.golang.org/protobuf/zverifsim/fx" // opaque fixture: fields declared after oneofs (see fx/README.md)
)

// Extensions of a generated message whose values are messages that contain
// maps and many fields. None of the extensions declared by the linked test
// protos has such a type; they are declared here through protodesc and
// registered as dynamicpb extension types, the way a program using dynamic
// schemas would.
func init() {
	if os.Getenv("PBSIM_C19_CHILD") == "1" {
		return // a first-use process must not touch any descriptor before its clients start
	}
	fp := &descriptorpb.FileDescriptorProto{
		Name:       proto.String("pbsim/dynext.proto"),
		Package:    proto.String("pbsim.dynext"),
		Syntax:     proto.String("proto2"),
		Dependency: []string{"internal/testprotos/test/test.proto"},
		Extension: []*descriptorpb.FieldDescriptorProto{
			{Name: proto.String("dyn_msg"), Number: proto.Int32(9000), Extendee: proto.String(".goproto.proto.test.TestAllExtensions"), TypeName: proto.String(".goproto.proto.test.TestAllTypes"),
				Label: descriptorpb.FieldDescriptorProto_LABEL_OPTIONAL.Enum(), Type: descriptorpb.FieldDescriptorProto_TYPE_MESSAGE.Enum()},
			{Name: proto.String("dyn_rep"), Number: proto.Int32(9001), Extendee: proto.String(".goproto.proto.test.TestAllExtensions"), TypeName: proto.String(".goproto.proto.test.TestAllTypes"),
				Label: descriptorpb.FieldDescriptorProto_LABEL_REPEATED.Enum(), Type: descriptorpb.FieldDescriptorProto_TYPE_MESSAGE.Enum()},
		},
	}
	fd, err := protodesc.NewFile(fp, protoregistry.GlobalFiles)
	if err != nil {
		panic("gen: dynext: " + err.Error())
	}
	for i := 0; i < fd.Extensions().Len(); i++ {
		if err := protoregistry.GlobalTypes.RegisterExtension(dynamicpb.NewExtensionType(fd.Extensions().Get(i))); err != nil {
			panic("gen: dynext: " + err.Error())
		}
	}
}

// Well-known corpus type names.
const (
	TOpen2      = "goproto.proto.test.TestAllTypes"
	TOpen3      = "goproto.proto.test3.TestAllTypes"
	TEditions   = "goproto.proto.testeditions.TestAllTypes"
	THybrid     = "hybrid.goproto.proto.testeditions.TestAllTypes"
	TOpaque     = "opaque.goproto.proto.testeditions.TestAllTypes"
	TLazyNode   = "opaque.lazy_tree.Node"
	THybNode    = "hybrid.lazy_tree.Node"
	TOpenNode   = "lazy_tree.Node"
	TMixedOpq   = "goproto.proto.test.OpaqueLazy"
	TMixedOpen  = "goproto.proto.test.OpenLazy"
	TMixedHyb   = "goproto.proto.test.HybridLazy"
	TReqLazy    = "opaque.goproto.proto.testeditions.TestRequiredLazy"
	TExt2       = "goproto.proto.test.TestAllExtensions"
	TManyOpaque = "opaque.goproto.proto.testeditions.TestManyMessageFieldsMessage"
)

// Type looks a linked message type up by full name.
func Type(name string) protoreflect.MessageType {
	mt, err := protoregistry.GlobalTypes.FindMessageByName(protoreflect.FullName(name))
	if err != nil {
		panic(fmt.Sprintf("gen: message type %q is not linked: %v", name, err))
	}
	return mt
}

// NewMsg returns a new empty message of the named type.
func NewMsg(name string) proto.Message { return Type(name).New().Interface() }

var (
	rebuiltFiles *protoregistry.Files
	rebuiltExts  map[protoreflect.FullName][]protoreflect.ExtensionType
)

func rebuildAll() {
	if rebuiltFiles != nil {
		return
	}
	var fds []protoreflect.FileDescriptor
	protoregistry.GlobalFiles.RangeFiles(func(fd protoreflect.FileDescriptor) bool { fds = append(fds, fd); return true })
	sort.Slice(fds, func(i, j int) bool { return fds[i].Path() < fds[j].Path() })
	// file by file, dependencies first; a file protodesc refuses (MessageSet without the protolegacy
	// tag) is left out together with the files that need it
	reg := new(protoregistry.Files)
	done := map[string]bool{}
	var build func(fd protoreflect.FileDescriptor)
	build = func(fd protoreflect.FileDescriptor) {
		if done[fd.Path()] {
			return
		}
		done[fd.Path()] = true
		imps := fd.Imports()
		for i := 0; i < imps.Len(); i++ {
			if !imps.Get(i).IsPlaceholder() {
				build(imps.Get(i).FileDescriptor)
			}
		}
		nf, err := protodesc.NewFile(protodesc.ToFileDescriptorProto(fd), reg)
		if err != nil {
			return
		}
		reg.RegisterFile(nf)
	}
	for _, fd := range fds {
		build(fd)
	}
	rebuiltFiles = reg
	rebuiltExts = map[protoreflect.FullName][]protoreflect.ExtensionType{}
	var walkMsgs func(ms protoreflect.MessageDescriptors)
	addExts := func(xs protoreflect.ExtensionDescriptors) {
		for i := 0; i < xs.Len(); i++ {
			xd := xs.Get(i)
			if xd.ContainingMessage().IsPlaceholder() {
				continue
			}
			n := xd.ContainingMessage().FullName()
			rebuiltExts[n] = append(rebuiltExts[n], dynamicpb.NewExtensionType(xd))
		}
	}
	walkMsgs = func(ms protoreflect.MessageDescriptors) {
		for i := 0; i < ms.Len(); i++ {
			addExts(ms.Get(i).Extensions())
			walkMsgs(ms.Get(i).Messages())
		}
	}
	for _, f := range fds {
		rf, err := reg.FindFileByPath(f.Path())
		if err != nil {
			continue
		}
		addExts(rf.Extensions())
		walkMsgs(rf.Messages())
	}
	for n := range rebuiltExts {
		xs := rebuiltExts[n]
		sort.Slice(xs, func(i, j int) bool { return xs[i].TypeDescriptor().Number() < xs[j].TypeDescriptor().Number() })
	}
}

// Rebuilt returns the descriptor of the named linked message type as rebuilt at run time by
// reflect/protodesc from FileDescriptorProtos (the path a program takes that loads a
// FileDescriptorSet and works with dynamicpb), instead of the one internal/filedesc built from the
// generated code's raw descriptor. The two packages resolve editions features separately. All
// linked files are rebuilt together, once, so that messages and the extensions that extend them
// refer to each other. nil if the type's file could not be rebuilt.
func Rebuilt(name string) protoreflect.MessageDescriptor {
	rebuildAll()
	d, err := rebuiltFiles.FindDescriptorByName(protoreflect.FullName(name))
	if err != nil {
		return nil
	}
	return d.(protoreflect.MessageDescriptor)
}

// RebuiltTypes resolves message, enum and extension types over the rebuilt files: what a program that
// works with dynamicpb over loaded descriptors passes as Resolver when it decodes.
func RebuiltTypes() *dynamicpb.Types {
	rebuildAll()
	if rebuiltTypes == nil {
		rebuiltTypes = dynamicpb.NewTypes(rebuiltFiles)
	}
	return rebuiltTypes
}

var rebuiltTypes *dynamicpb.Types

// ExtensionsOf lists the extension types that extend md, ordered by number: the linked ones for a
// linked descriptor, dynamicpb extension types over rebuilt extension descriptors for a rebuilt one.
func ExtensionsOf(md protoreflect.MessageDescriptor) []protoreflect.ExtensionType {
	if rebuiltFiles != nil {
		if d, err := rebuiltFiles.FindDescriptorByName(md.FullName()); err == nil && d == protoreflect.Descriptor(md) {
			return rebuiltExts[md.FullName()]
		}
	}
	var xts []protoreflect.ExtensionType
	protoregistry.GlobalTypes.RangeExtensionsByMessage(md.FullName(), func(xt protoreflect.ExtensionType) bool {
		xts = append(xts, xt)
		return true
	})
	sort.Slice(xts, func(i, j int) bool { return xts[i].TypeDescriptor().Number() < xts[j].TypeDescriptor().Number() })
	return xts
}
