package gen

import (
	"sort"

	"google.golang.org/protobuf/encoding/protowire"
	"google.golang.org/protobuf/internal/encoding/messageset"
	"google.golang.org/protobuf/reflect/protoreflect"
	"google.golang.org/protobuf/reflect/protoregistry"
	"google.golang.org/protobuf/zverifsim/sim"
)

// WNode is one field occurrence of a parsed wire message.
type WNode struct {
	Num    protowire.Number
	Typ    protowire.Type
	Varint uint64
	Fixed  []byte // 4 or 8 bytes
	Bytes  []byte // payload of a length-delimited field that is not parsed further
	Sub    *WMsg  // parsed payload of a message-typed length-delimited field
	Group  *WMsg  // content of a group
	FD     protoreflect.FieldDescriptor
	PadTag int    // extra continuation bytes on the tag varint
	PadLen int    // ... on the length varint
	PadVal int    // ... on the value varint
	Raw    []byte // if set, emitted verbatim instead of everything else
}

// WMsg is a parsed wire message.
type WMsg struct {
	MD     protoreflect.MessageDescriptor
	Fields []*WNode
}

// ParseWire parses b according to md. Unknown fields and scalars stay opaque.
func ParseWire(md protoreflect.MessageDescriptor, b []byte) (*WMsg, bool) {
	m, rest, ok := parseWire(md, b, 0, 0)
	if !ok || len(rest) != 0 {
		return nil, false
	}
	return m, true
}

func parseWire(md protoreflect.MessageDescriptor, b []byte, group protowire.Number, depth int) (*WMsg, []byte, bool) {
	m := &WMsg{MD: md}
	if depth > 40 {
		return nil, nil, false
	}
	for len(b) > 0 {
		num, typ, n := protowire.ConsumeTag(b)
		if n < 0 {
			return nil, nil, false
		}
		b = b[n:]
		if typ == protowire.EndGroupType {
			if num != group {
				return nil, nil, false
			}
			return m, b, true
		}
		nd := &WNode{Num: num, Typ: typ}
		if md != nil {
			nd.FD = md.Fields().ByNumber(num)
		}
		switch typ {
		case protowire.VarintType:
			v, n := protowire.ConsumeVarint(b)
			if n < 0 {
				return nil, nil, false
			}
			nd.Varint = v
			b = b[n:]
		case protowire.Fixed32Type:
			if len(b) < 4 {
				return nil, nil, false
			}
			nd.Fixed = append([]byte(nil), b[:4]...)
			b = b[4:]
		case protowire.Fixed64Type:
			if len(b) < 8 {
				return nil, nil, false
			}
			nd.Fixed = append([]byte(nil), b[:8]...)
			b = b[8:]
		case protowire.BytesType:
			v, n := protowire.ConsumeBytes(b)
			if n < 0 {
				return nil, nil, false
			}
			b = b[n:]
			if nd.FD != nil && nd.FD.Message() != nil && nd.FD.Kind() == protoreflect.MessageKind {
				if sub, rest, ok := parseWire(nd.FD.Message(), v, 0, depth+1); ok && len(rest) == 0 {
					nd.Sub = sub
					break
				}
			}
			nd.Bytes = append([]byte(nil), v...)
		case protowire.StartGroupType:
			var gmd protoreflect.MessageDescriptor
			if nd.FD != nil && nd.FD.Kind() == protoreflect.GroupKind {
				gmd = nd.FD.Message()
			}
			g, rest, ok := parseWire(gmd, b, num, depth+1)
			if !ok {
				return nil, nil, false
			}
			nd.Group = g
			b = rest
		default:
			return nil, nil, false
		}
		m.Fields = append(m.Fields, nd)
	}
	if group != 0 {
		return nil, nil, false
	}
	return m, b, true
}

func appendPadded(b []byte, v uint64, pad int) []byte {
	start := len(b)
	b = protowire.AppendVarint(b, v)
	n := len(b) - start
	if pad <= 0 || n+pad > 10 {
		if n >= 10 {
			return b
		}
		if pad > 0 {
			pad = 10 - n
		}
	}
	if pad <= 0 {
		return b
	}
	b[len(b)-1] |= 0x80
	for i := 0; i < pad-1; i++ {
		b = append(b, 0x80)
	}
	return append(b, 0x00)
}

// Encode emits the (possibly denormalised) message.
func (m *WMsg) Encode() []byte { return m.appendTo(nil) }

func (m *WMsg) appendTo(b []byte) []byte {
	for _, nd := range m.Fields {
		if nd.Raw != nil {
			b = append(b, nd.Raw...)
			continue
		}
		b = appendPadded(b, protowire.EncodeTag(nd.Num, nd.Typ), nd.PadTag)
		switch nd.Typ {
		case protowire.VarintType:
			b = appendPadded(b, nd.Varint, nd.PadVal)
		case protowire.Fixed32Type, protowire.Fixed64Type:
			b = append(b, nd.Fixed...)
		case protowire.BytesType:
			var payload []byte
			if nd.Sub != nil {
				payload = nd.Sub.appendTo(nil)
			} else {
				payload = nd.Bytes
			}
			b = appendPadded(b, uint64(len(payload)), nd.PadLen)
			b = append(b, payload...)
		case protowire.StartGroupType:
			b = nd.Group.appendTo(b)
			b = protowire.AppendTag(b, nd.Num, protowire.EndGroupType)
		}
	}
	return b
}

// DenormStats says which rewrites a denormalisation applied.
type DenormStats struct {
	PaddedVarints, SplitMessages, Reordered, NonContiguous, Repacked, Duplicated, WrongWireType, EmptyPacked int
	LazyTouched                                                                                              int // rewrites inside or on a lazy field
}

func (d *DenormStats) Total() int {
	return d.PaddedVarints + d.SplitMessages + d.Reordered + d.NonContiguous + d.Repacked + d.Duplicated + d.WrongWireType + d.EmptyPacked
}

// ManyRuns rewrites m (at any depth where a message holds two or more lazy singular message fields) so
// that every such field arrives in k separate occurrences, the occurrences of the different fields taking
// turns and the higher field numbers first: what a receiver sees when a sender concatenates k serialized
// deltas. Each field's content is cut into consecutive pieces (possibly empty), so merging the occurrences
// in wire order gives the original content. It reports how many messages were rewritten.
func ManyRuns(r *sim.Rng, m *WMsg, k int) int {
	n := 0
	var lazy, rest []*WNode
	for _, nd := range m.Fields {
		if nd.Sub != nil {
			n += ManyRuns(r, nd.Sub, k)
		}
		if nd.Group != nil {
			n += ManyRuns(r, nd.Group, k)
		}
		if nd.FD != nil && IsLazy(nd.FD) && !nd.FD.IsList() && !nd.FD.IsMap() && nd.Sub != nil {
			lazy = append(lazy, nd)
		} else {
			rest = append(rest, nd)
		}
	}
	// one occurrence per lazy field to start from (an earlier rewrite may have split one already)
	seen := map[protowire.Number]bool{}
	for _, nd := range lazy {
		if seen[nd.Num] {
			return n
		}
		seen[nd.Num] = true
	}
	if len(lazy) < 2 {
		return n
	}
	sort.Slice(lazy, func(i, j int) bool { return lazy[i].Num > lazy[j].Num })
	out := rest
	for i := 0; i < k; i++ {
		for _, nd := range lazy {
			fs := nd.Sub.Fields
			lo, hi := len(fs)*i/k, len(fs)*(i+1)/k
			piece := *nd
			piece.Sub = &WMsg{MD: nd.Sub.MD, Fields: fs[lo:hi:hi]}
			out = append(out, &piece)
		}
	}
	m.Fields = out
	return n + 1
}

// Denormalise rewrites m in place into a legal but non-minimal encoding of
// the same content. intensity is per mille per opportunity.
func Denormalise(r *sim.Rng, m *WMsg, intensity int, st *DenormStats) {
	denorm(r, m, intensity, st, false)
}

func denorm(r *sim.Rng, m *WMsg, intensity int, st *DenormStats, inLazy bool) {
	hit := func() bool { return r.Intn(1000) < intensity }
	var out []*WNode
	for _, nd := range m.Fields {
		lazyHere := inLazy || (nd.FD != nil && IsLazy(nd.FD))
		note := func() {
			if lazyHere {
				st.LazyTouched++
			}
		}
		if hit() {
			nd.PadTag = r.Range(1, 2)
			st.PaddedVarints++
			note()
		}
		switch {
		case nd.Typ == protowire.VarintType:
			if hit() {
				nd.PadVal = r.Range(1, 3)
				st.PaddedVarints++
				note()
			}
			// a decoy occurrence of a singular scalar before the real one (last one wins)
			if nd.FD != nil && !nd.FD.IsList() && nd.FD.ContainingOneof() == nil && nd.FD.Message() == nil && hit() {
				decoy := *nd
				decoy.Varint = nd.Varint ^ 1
				if nd.FD.Kind() == protoreflect.BoolKind {
					decoy.Varint = 1 - (nd.Varint & 1)
				}
				if nd.FD.Kind() == protoreflect.EnumKind {
					decoy.Varint = nd.Varint // keep enum values valid
				}
				out = append(out, &decoy)
				st.Duplicated++
				note()
			}
		case nd.Typ == protowire.BytesType:
			if hit() {
				nd.PadLen = r.Range(1, 3)
				st.PaddedVarints++
				note()
			}
			if nd.Sub != nil {
				denorm(r, nd.Sub, intensity, st, lazyHere)
				// split a singular submessage into two occurrences
				if nd.FD != nil && !nd.FD.IsList() && !nd.FD.IsMap() && len(nd.Sub.Fields) >= 2 && !nd.Sub.MD.IsMapEntry() && r.Intn(1000) < intensity*2 {
					k := r.Range(1, len(nd.Sub.Fields)-1)
					if splitSafe(nd.Sub, k) {
						a := *nd
						a.Sub = &WMsg{MD: nd.Sub.MD, Fields: nd.Sub.Fields[:k:k]}
						nd.Sub = &WMsg{MD: nd.Sub.MD, Fields: nd.Sub.Fields[k:]}
						out = append(out, &a)
						st.SplitMessages++
						note()
					}
				}
			} else if nd.FD != nil && nd.FD.IsList() && nd.FD.IsPacked() && packable(nd.FD) && r.Intn(1000) < intensity*2 {
				// packed -> unpacked elements
				if elems, ok := unpack(nd); ok {
					out = append(out, elems...)
					st.Repacked++
					note()
					continue
				}
			}
		case nd.Group != nil:
			denorm(r, nd.Group, intensity, st, lazyHere)
		}
		out = append(out, nd)
	}
	// an occurrence of a declared field number with a wire type the field does
	// not accept: legal input, decoders must keep it as an unknown field
	// (message-typed and lazy fields preferred: that is where validators and
	// lazy indexes look at the tag)
	if m.MD != nil && r.Intn(1000) < intensity {
		fds := m.MD.Fields()
		var cands []protoreflect.FieldDescriptor
		for i := 0; i < fds.Len(); i++ {
			fd := fds.Get(i)
			if fd.Message() != nil && !fd.IsMap() && fd.Kind() == protoreflect.MessageKind {
				cands = append(cands, fd)
				if IsLazy(fd) {
					cands = append(cands, fd, fd)
				}
			} else if od := fd.ContainingOneof(); od != nil && !od.IsSynthetic() && fd.Kind() != protoreflect.GroupKind {
				// a scalar member of a oneof: the record names no member and must not disturb the selection
				cands = append(cands, fd)
			}
		}
		if len(cands) > 0 && !messageset.IsMessageSet(m.MD) {
			fd := cands[r.Intn(len(cands))]
			nd := &WNode{Num: fd.Number()} // FD stays nil: it is an unknown field as far as content goes
			pick := r.Intn(3)
			switch fd.Kind() {
			case protoreflect.MessageKind, protoreflect.StringKind, protoreflect.BytesKind:
			case protoreflect.Fixed32Kind, protoreflect.Sfixed32Kind, protoreflect.FloatKind:
				pick = []int{0, 2}[r.Intn(2)]
			case protoreflect.Fixed64Kind, protoreflect.Sfixed64Kind, protoreflect.DoubleKind:
				pick = r.Intn(2)
			default: // varint kinds
				pick = 1 + r.Intn(2)
			}
			switch pick {
			case 0:
				nd.Typ = protowire.VarintType
				nd.Varint = uint64(r.Intn(300))
			case 1:
				nd.Typ = protowire.Fixed32Type
				nd.Fixed = r.Bytes(4)
			default:
				nd.Typ = protowire.Fixed64Type
				nd.Fixed = r.Bytes(8)
			}
			pos := r.Intn(len(out) + 1)
			out = append(out[:pos:pos], append([]*WNode{nd}, out[pos:]...)...)
			st.WrongWireType++
			if inLazy || IsLazy(fd) {
				st.LazyTouched++
			}
		}
	}
	// a zero-length packed occurrence of a repeated scalar field or extension: legal, adds no element
	// (a decoder may be left holding an empty list for a field the content does not have)
	if m.MD != nil && r.Intn(1000) < intensity && !messageset.IsMessageSet(m.MD) && !m.MD.IsMapEntry() {
		var cands []protoreflect.FieldDescriptor
		fds := m.MD.Fields()
		for i := 0; i < fds.Len(); i++ {
			if fd := fds.Get(i); fd.IsList() && packable(fd) {
				cands = append(cands, fd)
			}
		}
		if m.MD.ExtensionRanges().Len() > 0 {
			var xs []protoreflect.FieldDescriptor
			protoregistry.GlobalTypes.RangeExtensionsByMessage(m.MD.FullName(), func(xt protoreflect.ExtensionType) bool {
				if fd := xt.TypeDescriptor(); fd.IsList() && packable(fd) {
					xs = append(xs, fd)
				}
				return true
			})
			sort.Slice(xs, func(i, j int) bool { return xs[i].Number() < xs[j].Number() })
			// extensions twice: their containers remember an empty list as an entry
			cands = append(cands, xs...)
			cands = append(cands, xs...)
		}
		if len(cands) > 0 {
			fd := cands[r.Intn(len(cands))]
			nd := &WNode{Num: fd.Number(), Typ: protowire.BytesType, FD: fd}
			pos := r.Intn(len(out) + 1)
			out = append(out[:pos:pos], append([]*WNode{nd}, out[pos:]...)...)
			st.EmptyPacked++
			if inLazy {
				st.LazyTouched++
			}
		}
	}
	m.Fields = out
	// reorder: move a random subset to the back, keeping relative order inside both parts
	if len(m.Fields) >= 2 && r.Intn(1000) < intensity*2 && !m.hasOneofConflict() {
		var front, back []*WNode
		for _, nd := range m.Fields {
			// unknown fields keep their place: their relative order is part of
			// what a decoder retains and re-emits
			if nd.FD != nil && r.Chance(1, 3) {
				back = append(back, nd)
			} else {
				front = append(front, nd)
			}
		}
		if len(front) > 0 && len(back) > 0 {
			// moving occurrences of one field number apart keeps their relative order
			// only if none of the same number stays in front after one moved back
			ok := true
			seenBack := map[protowire.Number]bool{}
			for _, nd := range m.Fields {
				inBack := false
				for _, b := range back {
					if b == nd {
						inBack = true
					}
				}
				if inBack {
					seenBack[nd.Num] = true
				} else if seenBack[nd.Num] {
					ok = false
				}
			}
			if ok {
				m.Fields = append(front, back...)
				st.Reordered++
				if inLazy {
					st.LazyTouched++
				}
				// non-contiguous repeats: did a repeated / split field get separated?
				last := map[protowire.Number]int{}
				for i, nd := range m.Fields {
					if j, ok := last[nd.Num]; ok && j != i-1 {
						st.NonContiguous++
						break
					}
					last[nd.Num] = i
				}
			}
		}
	}
}

func (m *WMsg) hasOneofConflict() bool {
	// reordering must not change which member of a oneof comes last
	seen := map[string]int{}
	for _, nd := range m.Fields {
		if nd.FD != nil && nd.FD.ContainingOneof() != nil {
			seen[string(nd.FD.ContainingOneof().FullName())]++
		}
	}
	for _, n := range seen {
		if n > 1 {
			return true
		}
	}
	return false
}

// splitSafe: splitting between k-1 and k must not separate members of one oneof
// (merge semantics of a oneof across two occurrences are last-wins as well, but
// keep it simple) — always safe for plain fields.
func splitSafe(m *WMsg, k int) bool {
	for _, nd := range m.Fields {
		if nd.FD != nil && nd.FD.ContainingOneof() != nil && nd.FD.Message() != nil {
			// merging two occurrences where a message-typed oneof member is split
			// across them is still fine, the member is not split by us.
			_ = nd
		}
	}
	return k > 0 && k < len(m.Fields)
}

func packable(fd protoreflect.FieldDescriptor) bool {
	switch fd.Kind() {
	case protoreflect.StringKind, protoreflect.BytesKind, protoreflect.MessageKind, protoreflect.GroupKind:
		return false
	}
	return true
}

func unpack(nd *WNode) ([]*WNode, bool) {
	var out []*WNode
	b := nd.Bytes
	for len(b) > 0 {
		e := &WNode{Num: nd.Num, FD: nd.FD}
		switch nd.FD.Kind() {
		case protoreflect.Fixed32Kind, protoreflect.Sfixed32Kind, protoreflect.FloatKind:
			if len(b) < 4 {
				return nil, false
			}
			e.Typ = protowire.Fixed32Type
			e.Fixed = append([]byte(nil), b[:4]...)
			b = b[4:]
		case protoreflect.Fixed64Kind, protoreflect.Sfixed64Kind, protoreflect.DoubleKind:
			if len(b) < 8 {
				return nil, false
			}
			e.Typ = protowire.Fixed64Type
			e.Fixed = append([]byte(nil), b[:8]...)
			b = b[8:]
		default:
			v, n := protowire.ConsumeVarint(b)
			if n < 0 {
				return nil, false
			}
			e.Typ = protowire.VarintType
			e.Varint = v
			b = b[n:]
		}
		out = append(out, e)
	}
	return out, len(out) > 0
}

// HasLazyField reports whether md declares a lazy field.
func HasLazyField(md protoreflect.MessageDescriptor) bool {
	fds := md.Fields()
	for i := 0; i < fds.Len(); i++ {
		if IsLazy(fds.Get(i)) {
			return true
		}
	}
	return false
}

// Corruptions of a submessage payload.
var corruptKinds = []string{"truncated-varint", "length-overrun", "bad-wiretype", "field-zero", "stray-endgroup", "truncate-tail", "bad-utf8", "unterminated-group",
	"packed-misaligned", "packed-truncated-varint", "overlong-varint", "bad-utf8-in-container", "group-end-mismatch", "field-number-overflow", "nested-bad-length", "varint-overflow-bits", "packed-varint-overflow-bits", "tag-number-wraps-32-bits", "tag-number-wraps-32-bits"}

// findField returns the first field of md that satisfies ok.
func findField(md protoreflect.MessageDescriptor, ok func(protoreflect.FieldDescriptor) bool) protoreflect.FieldDescriptor {
	fds := md.Fields()
	for i := 0; i < fds.Len(); i++ {
		if fd := fds.Get(i); ok(fd) {
			return fd
		}
	}
	return nil
}

// Corrupt makes the payload of one nested message-typed field invalid while
// keeping every enclosing length prefix consistent. It returns the kind and
// whether the corrupted payload sits inside a lazy field.
func Corrupt(r *sim.Rng, m *WMsg) (kind string, inLazy bool, ok bool) {
	type cand struct {
		nd   *WNode
		lazy bool
	}
	var cands []cand
	var walk func(m *WMsg, lazy bool)
	walk = func(m *WMsg, lazy bool) {
		for _, nd := range m.Fields {
			l := lazy || (nd.FD != nil && IsLazy(nd.FD))
			if nd.Sub != nil {
				cands = append(cands, cand{nd, l})
				walk(nd.Sub, l)
			}
			if nd.Group != nil {
				walk(nd.Group, l)
			}
		}
	}
	walk(m, false)
	if len(cands) == 0 {
		return "", false, false
	}
	// prefer lazy candidates
	var lz []cand
	for _, c := range cands {
		if c.lazy {
			lz = append(lz, c)
		}
	}
	if len(lz) > 0 && !r.Chance(1, 6) {
		cands = lz
	}
	c := cands[r.Intn(len(cands))]
	kind = corruptKinds[r.Intn(len(corruptKinds))]
	if kind == "tag-number-wraps-32-bits" {
		// a tag whose field number does not fit in 32 bits but whose low 32 bits are the number of a declared
		// field (or another valid number): invalid everywhere; placed at the top level half of the time, and
		// otherwise in the chosen nested message, lazy or not
		wrap := func(md protoreflect.MessageDescriptor) []byte {
			n := uint64(1 + r.Intn(40))
			if fd := findField(md, func(fd protoreflect.FieldDescriptor) bool {
				return !fd.IsList() && !fd.IsMap() && (fd.Kind() == protoreflect.Int32Kind || fd.Kind() == protoreflect.Int64Kind || fd.Kind() == protoreflect.Uint32Kind || fd.Kind() == protoreflect.BoolKind)
			}); fd != nil && r.Chance(2, 3) {
				n = uint64(fd.Number())
			}
			b := protowire.AppendVarint(nil, (uint64(1+r.Intn(3))<<32|n)<<3|uint64(protowire.VarintType))
			return protowire.AppendVarint(b, uint64(r.Intn(100)))
		}
		if r.Bool() {
			pos := r.Intn(len(m.Fields) + 1)
			m.Fields = append(m.Fields[:pos:pos], append([]*WNode{{Raw: wrap(m.MD)}}, m.Fields[pos:]...)...)
			return kind, false, true
		}
		payload := append(c.nd.Sub.Encode(), wrap(c.nd.Sub.MD)...)
		c.nd.Sub = nil
		c.nd.Bytes = payload
		return kind, c.lazy, true
	}
	payload := c.nd.Sub.Encode()
	switch kind {
	case "truncated-varint":
		payload = append(payload, byte(protowire.EncodeTag(1, protowire.VarintType)), 0x80)
	case "length-overrun":
		payload = append(payload, byte(protowire.EncodeTag(15, protowire.BytesType)), 0x7f, 1, 2)
	case "bad-wiretype":
		payload = append(payload, byte(1<<3|7))
	case "field-zero":
		payload = append(payload, 0x00, 0x00)
	case "stray-endgroup":
		payload = append(payload, byte(protowire.EncodeTag(3, protowire.EndGroupType)))
	case "truncate-tail":
		if len(payload) < 2 {
			payload = append(payload, 0x80)
		} else {
			payload = payload[:len(payload)-1]
			// make sure it is really invalid: end with a continuation byte
			payload[len(payload)-1] |= 0x80
		}
	case "bad-utf8":
		// only invalid where the field enforces UTF-8; otherwise this is valid input
		var sfd protoreflect.FieldDescriptor
		fds := c.nd.Sub.MD.Fields()
		for i := 0; i < fds.Len(); i++ {
			if fd := fds.Get(i); fd.Kind() == protoreflect.StringKind && !fd.IsList() && !fd.IsMap() {
				sfd = fd
				break
			}
		}
		if sfd == nil {
			kind = "bad-wiretype"
			payload = append(payload, byte(1<<3|7))
		} else {
			payload = protowire.AppendTag(payload, sfd.Number(), protowire.BytesType)
			payload = protowire.AppendBytes(payload, []byte{0xff, 0xfe})
		}
	case "unterminated-group":
		payload = protowire.AppendTag(payload, 9000, protowire.StartGroupType)
	case "packed-misaligned":
		// a packed payload of a fixed-width repeated field whose length is not a multiple of the width
		fd := findField(c.nd.Sub.MD, func(fd protoreflect.FieldDescriptor) bool {
			switch fd.Kind() {
			case protoreflect.Fixed32Kind, protoreflect.Sfixed32Kind, protoreflect.FloatKind, protoreflect.Fixed64Kind, protoreflect.Sfixed64Kind, protoreflect.DoubleKind:
				return fd.IsList()
			}
			return false
		})
		if fd == nil {
			kind = "bad-wiretype"
			payload = append(payload, byte(1<<3|7))
		} else {
			payload = protowire.AppendTag(payload, fd.Number(), protowire.BytesType)
			payload = protowire.AppendBytes(payload, r.Bytes([]int{1, 2, 3, 5, 6, 7, 9}[r.Intn(7)]))
		}
	case "packed-truncated-varint":
		fd := findField(c.nd.Sub.MD, func(fd protoreflect.FieldDescriptor) bool {
			switch fd.Kind() {
			case protoreflect.Int32Kind, protoreflect.Int64Kind, protoreflect.Uint32Kind, protoreflect.Uint64Kind, protoreflect.Sint32Kind, protoreflect.Sint64Kind, protoreflect.BoolKind, protoreflect.EnumKind:
				return fd.IsList()
			}
			return false
		})
		if fd == nil {
			kind = "truncated-varint"
			payload = append(payload, byte(protowire.EncodeTag(1, protowire.VarintType)), 0x80)
		} else {
			payload = protowire.AppendTag(payload, fd.Number(), protowire.BytesType)
			payload = protowire.AppendBytes(payload, []byte{0x01, 0x80})
		}
	case "overlong-varint":
		// eleven bytes: no decoder may accept it, whatever the field
		fd := findField(c.nd.Sub.MD, func(fd protoreflect.FieldDescriptor) bool {
			return !fd.IsList() && !fd.IsMap() && (fd.Kind() == protoreflect.Int64Kind || fd.Kind() == protoreflect.Uint64Kind || fd.Kind() == protoreflect.Int32Kind || fd.Kind() == protoreflect.BoolKind)
		})
		num := protowire.Number(1)
		if fd != nil {
			num = fd.Number()
		}
		payload = protowire.AppendTag(payload, num, protowire.VarintType)
		payload = append(payload, 0x80, 0x80, 0x80, 0x80, 0x80, 0x80, 0x80, 0x80, 0x80, 0x80, 0x01)
	case "bad-utf8-in-container":
		// invalid UTF-8 in an element of a repeated string, or in a string key or value of a map entry
		fd := findField(c.nd.Sub.MD, func(fd protoreflect.FieldDescriptor) bool {
			if fd.IsMap() {
				return fd.MapKey().Kind() == protoreflect.StringKind || fd.MapValue().Kind() == protoreflect.StringKind
			}
			return fd.IsList() && fd.Kind() == protoreflect.StringKind
		})
		if fd == nil {
			kind = "bad-wiretype"
			payload = append(payload, byte(1<<3|7))
		} else if fd.IsMap() {
			var e []byte
			if fd.MapKey().Kind() == protoreflect.StringKind {
				e = protowire.AppendTag(e, 1, protowire.BytesType)
				e = protowire.AppendBytes(e, []byte{0xc3, 0x28})
			} else {
				e = protowire.AppendTag(e, 1, protowire.VarintType)
				e = protowire.AppendVarint(e, 1)
			}
			if fd.MapValue().Kind() == protoreflect.StringKind {
				e = protowire.AppendTag(e, 2, protowire.BytesType)
				e = protowire.AppendBytes(e, []byte{0xff})
			}
			payload = protowire.AppendTag(payload, fd.Number(), protowire.BytesType)
			payload = protowire.AppendBytes(payload, e)
		} else {
			payload = protowire.AppendTag(payload, fd.Number(), protowire.BytesType)
			payload = protowire.AppendBytes(payload, []byte("ok"))
			payload = protowire.AppendTag(payload, fd.Number(), protowire.BytesType)
			payload = protowire.AppendBytes(payload, []byte{0xe2, 0x82})
		}
	case "group-end-mismatch":
		// a group (of a declared group field if there is one) closed by the end tag of another number
		num := protowire.Number(9001)
		if fd := findField(c.nd.Sub.MD, func(fd protoreflect.FieldDescriptor) bool { return fd.Kind() == protoreflect.GroupKind }); fd != nil {
			num = fd.Number()
		}
		payload = protowire.AppendTag(payload, num, protowire.StartGroupType)
		payload = protowire.AppendTag(payload, num+1, protowire.EndGroupType)
	case "varint-overflow-bits", "packed-varint-overflow-bits":
		// ten bytes whose last byte carries bits beyond 64: an overflow, not merely a long encoding
		over := []byte{0xff, 0xff, 0xff, 0xff, 0xff, 0xff, 0xff, 0xff, 0xff, byte(0x02 + r.Intn(0x7e))}
		isVarintKind := func(fd protoreflect.FieldDescriptor) bool {
			switch fd.Kind() {
			case protoreflect.Int32Kind, protoreflect.Int64Kind, protoreflect.Uint32Kind, protoreflect.Uint64Kind, protoreflect.Sint32Kind, protoreflect.Sint64Kind, protoreflect.BoolKind, protoreflect.EnumKind:
				return true
			}
			return false
		}
		if kind == "packed-varint-overflow-bits" {
			if fd := findField(c.nd.Sub.MD, func(fd protoreflect.FieldDescriptor) bool { return fd.IsList() && isVarintKind(fd) }); fd != nil {
				var pk []byte
				if r.Bool() {
					pk = append(pk, 0x01)
				}
				pk = append(pk, over...)
				if r.Bool() {
					pk = append(pk, 0x03)
				}
				payload = protowire.AppendTag(payload, fd.Number(), protowire.BytesType)
				payload = protowire.AppendBytes(payload, pk)
				break
			}
			kind = "varint-overflow-bits"
		}
		num := protowire.Number(1)
		if fd := findField(c.nd.Sub.MD, func(fd protoreflect.FieldDescriptor) bool { return !fd.IsMap() && isVarintKind(fd) }); fd != nil {
			num = fd.Number()
		}
		payload = protowire.AppendTag(payload, num, protowire.VarintType)
		payload = append(payload, over...)
	case "field-number-overflow":
		payload = protowire.AppendVarint(payload, uint64(1<<29)<<3|uint64(protowire.VarintType))
		payload = protowire.AppendVarint(payload, 1)
	case "nested-bad-length":
		// a message-typed field one level further down whose length prefix overruns its parent
		fd := findField(c.nd.Sub.MD, func(fd protoreflect.FieldDescriptor) bool {
			return fd.Message() != nil && fd.Kind() == protoreflect.MessageKind
		})
		num := protowire.Number(9002)
		if fd != nil {
			num = fd.Number()
		}
		payload = protowire.AppendTag(payload, num, protowire.BytesType)
		payload = append(payload, 0x05, 0x08, 0x01)
	}
	c.nd.Sub = nil
	c.nd.Bytes = payload
	return kind, c.lazy, true
}
