// Package gen produces seeded message content, wire encodings (including
// legal non-minimal ones and corrupted ones), and other scenario inputs.
package gen

import (
	"math"

	"google.golang.org/protobuf/encoding/protowire"
	"google.golang.org/protobuf/internal/encoding/messageset"
	"google.golang.org/protobuf/proto"
	"google.golang.org/protobuf/reflect/protoreflect"
	"google.golang.org/protobuf/reflect/protoregistry"
	"google.golang.org/protobuf/zverifsim/sim"
)

// Opts bounds the generated content.
type Opts struct {
	MaxDepth       int  // nesting depth of submessages
	MaxList        int  // max entries of lists / maps
	FieldPerm      int  // probability (per 1000) that a given field is set at depth 0
	Unknown        bool // add unknown fields
	Extensions     bool // set extensions registered in GlobalTypes
	BigCollections bool // occasionally 9..12 entries (crosses Go's 8-entry map bucket)
	NoNaN          bool
	NegZero        bool                              // allow -0.0 (off by default: Merge/Clone drop an implicit-presence -0, an upstream quirk outside the claimed properties)
	LargeBytes     bool                              // occasionally 250..320-byte bytes values (a copy elided above a size threshold aliases the input; C14 only)
	ForceLazy      bool                              // populate lazy fields (and message fields leading to them) with high probability
	OnlyFields     map[protoreflect.FieldNumber]bool // restrict top-level fields (nil = all)
}

func DefaultOpts() Opts {
	return Opts{MaxDepth: 3, MaxList: 4, FieldPerm: 250, Unknown: true, Extensions: true, BigCollections: true, NoNaN: true}
}

var interestingInts = []int64{0, 1, -1, 2, 127, 128, 255, 256, 16383, 16384, math.MaxInt32, math.MinInt32, math.MaxInt64, math.MinInt64, 42}

func scalar(r *sim.Rng, fd protoreflect.FieldDescriptor, o *Opts) protoreflect.Value {
	pick := func() int64 {
		if r.Chance(1, 3) {
			return interestingInts[r.Intn(len(interestingInts))]
		}
		if r.Chance(1, 2) {
			return int64(r.Intn(200)) - 50
		}
		return int64(r.U64())
	}
	switch fd.Kind() {
	case protoreflect.BoolKind:
		return protoreflect.ValueOfBool(r.Bool())
	case protoreflect.EnumKind:
		vals := fd.Enum().Values()
		if r.Chance(1, 10) && !fd.Enum().IsClosed() {
			return protoreflect.ValueOfEnum(protoreflect.EnumNumber(r.Intn(1000) + 100))
		}
		return protoreflect.ValueOfEnum(vals.Get(r.Intn(vals.Len())).Number())
	case protoreflect.Int32Kind, protoreflect.Sint32Kind, protoreflect.Sfixed32Kind:
		return protoreflect.ValueOfInt32(int32(pick()))
	case protoreflect.Int64Kind, protoreflect.Sint64Kind, protoreflect.Sfixed64Kind:
		return protoreflect.ValueOfInt64(pick())
	case protoreflect.Uint32Kind, protoreflect.Fixed32Kind:
		return protoreflect.ValueOfUint32(uint32(pick()))
	case protoreflect.Uint64Kind, protoreflect.Fixed64Kind:
		return protoreflect.ValueOfUint64(uint64(pick()))
	case protoreflect.FloatKind:
		switch r.Intn(6) {
		case 0:
			return protoreflect.ValueOfFloat32(0)
		case 1:
			return protoreflect.ValueOfFloat32(float32(math.Inf(1)))
		case 2:
			if o.NegZero {
				return protoreflect.ValueOfFloat32(float32(math.Copysign(0, -1)))
			}
		}
		return protoreflect.ValueOfFloat32(float32(r.Intn(2000)-1000) / 8)
	case protoreflect.DoubleKind:
		switch r.Intn(6) {
		case 0:
			return protoreflect.ValueOfFloat64(0)
		case 1:
			return protoreflect.ValueOfFloat64(math.Inf(-1))
		case 2:
			if o.NegZero {
				return protoreflect.ValueOfFloat64(math.Copysign(0, -1))
			}
		}
		return protoreflect.ValueOfFloat64(float64(r.Intn(200000)-100000) / 16)
	case protoreflect.StringKind:
		return protoreflect.ValueOfString(String(r))
	case protoreflect.BytesKind:
		n := r.Intn(12)
		if r.Chance(1, 8) {
			n = r.Intn(80)
		}
		if o.LargeBytes && r.Chance(1, 12) {
			n = 250 + r.Intn(71)
		}
		return protoreflect.ValueOfBytes(r.Bytes(n))
	}
	panic("gen: not a scalar: " + string(fd.FullName()))
}

var words = []string{"", "a", "b", "key", "proto", "héllo", "日本", "x y", "\x00", "Z", "0", "long-string-value-0123456789", "ÿ", "😀"}

// String returns a valid UTF-8 string.
func String(r *sim.Rng) string {
	s := words[r.Intn(len(words))]
	if r.Chance(1, 3) {
		s += words[r.Intn(len(words))]
	}
	if r.Chance(1, 4) {
		s += string(rune('a' + r.Intn(26)))
	}
	return s
}

func listLen(r *sim.Rng, o *Opts) int {
	if o.BigCollections && r.Chance(1, 12) {
		return r.Range(9, 12)
	}
	return r.Range(1, max(1, o.MaxList))
}

// Populate fills m with seeded content.
func Populate(r *sim.Rng, m protoreflect.Message, o Opts) {
	populate(r, m, &o, 0)
}

func populate(r *sim.Rng, m protoreflect.Message, o *Opts, depth int) {
	md := m.Descriptor()
	fds := md.Fields()
	perm := o.FieldPerm
	if depth > 0 {
		perm = perm * 2 / 3
	}
	if fds.Len() <= 6 {
		perm = 600
	}
	for i := 0; i < fds.Len(); i++ {
		fd := fds.Get(i)
		if depth == 0 && o.OnlyFields != nil && !o.OnlyFields[fd.Number()] {
			continue
		}
		if fd.IsWeak() {
			continue
		}
		p := perm
		if fd.Cardinality() == protoreflect.Required {
			p = 900
		}
		if fd.Message() != nil && !fd.IsMap() {
			p = p * 3 / 2
			if o.ForceLazy && !fd.IsList() && (IsLazy(fd) || HasLazyField(fd.Message()) || leadsToLazy(fd.Message())) {
				p = 850
			}
		}
		if r.Intn(1000) >= p {
			continue
		}
		setField(r, m, fd, o, depth)
	}
	if o.Extensions && md.ExtensionRanges().Len() > 0 {
		var xts []protoreflect.ExtensionType
		protoregistry.GlobalTypes.RangeExtensionsByMessage(md.FullName(), func(xt protoreflect.ExtensionType) bool {
			xts = append(xts, xt)
			return true
		})
		sortExts(xts)
		for _, xt := range xts {
			if r.Intn(1000) < 150 {
				setField(r, m, xt.TypeDescriptor(), o, depth)
			}
		}
	}
	if o.Unknown && r.Chance(1, 5) && !messageset.IsMessageSet(md) {
		m.SetUnknown(UnknownFields(r, md))
	}
}

func sortExts(xts []protoreflect.ExtensionType) {
	for i := 1; i < len(xts); i++ {
		for j := i; j > 0 && xts[j].TypeDescriptor().Number() < xts[j-1].TypeDescriptor().Number(); j-- {
			xts[j], xts[j-1] = xts[j-1], xts[j]
		}
	}
}

// SetField sets fd in m to seeded content.
func SetField(r *sim.Rng, m protoreflect.Message, fd protoreflect.FieldDescriptor, o Opts, depth int) {
	setField(r, m, fd, &o, depth)
}

func setField(r *sim.Rng, m protoreflect.Message, fd protoreflect.FieldDescriptor, o *Opts, depth int) {
	switch {
	case fd.IsMap():
		if depth >= o.MaxDepth && fd.MapValue().Message() != nil {
			return
		}
		mp := m.Mutable(fd).Map()
		n := listLen(r, o)
		for i := 0; i < n; i++ {
			k := scalar(r, fd.MapKey(), o).MapKey()
			if fd.MapValue().Message() != nil {
				v := mp.NewValue()
				populate(r, v.Message(), o, depth+1)
				mp.Set(k, v)
			} else {
				mp.Set(k, scalar(r, fd.MapValue(), o))
			}
		}
	case fd.IsList():
		if depth >= o.MaxDepth && fd.Message() != nil {
			return
		}
		l := m.Mutable(fd).List()
		n := listLen(r, o)
		for i := 0; i < n; i++ {
			if fd.Message() != nil {
				v := l.NewElement()
				populate(r, v.Message(), o, depth+1)
				l.Append(v)
			} else {
				l.Append(scalar(r, fd, o))
			}
		}
	case fd.Message() != nil:
		if depth >= o.MaxDepth {
			if fd.Cardinality() != protoreflect.Required {
				return
			}
		}
		if depth >= o.MaxDepth+2 {
			return
		}
		v := m.NewField(fd)
		populate(r, v.Message(), o, depth+1)
		m.Set(fd, v)
	default:
		m.Set(fd, scalar(r, fd, o))
	}
}

// UnknownFields returns valid wire data whose field numbers are not declared
// in md (nor inside its extension ranges).
func UnknownFields(r *sim.Rng, md protoreflect.MessageDescriptor) []byte {
	var b []byte
	n := r.Range(1, 3)
	for i := 0; i < n; i++ {
		num := protowire.Number(0)
		for tries := 0; tries < 50; tries++ {
			c := protowire.Number(r.Range(1, 5000))
			if r.Chance(1, 4) {
				c = protowire.Number(r.Range(100000, 200000))
			}
			if md.Fields().ByNumber(c) != nil || md.ExtensionRanges().Has(c) || md.ReservedRanges().Has(c) {
				continue
			}
			if c >= 19000 && c <= 19999 {
				continue
			}
			num = c
			break
		}
		if num == 0 {
			continue
		}
		switch r.Intn(5) {
		case 0:
			b = protowire.AppendTag(b, num, protowire.VarintType)
			b = protowire.AppendVarint(b, r.U64()>>uint(r.Intn(64)))
		case 1:
			b = protowire.AppendTag(b, num, protowire.Fixed32Type)
			b = protowire.AppendFixed32(b, uint32(r.U64()))
		case 2:
			b = protowire.AppendTag(b, num, protowire.Fixed64Type)
			b = protowire.AppendFixed64(b, r.U64())
		case 3:
			b = protowire.AppendTag(b, num, protowire.BytesType)
			b = protowire.AppendBytes(b, r.Bytes(r.Intn(6)))
		case 4:
			b = protowire.AppendTag(b, num, protowire.StartGroupType)
			b = protowire.AppendTag(b, 1, protowire.VarintType)
			b = protowire.AppendVarint(b, uint64(r.Intn(300)))
			b = protowire.AppendTag(b, num, protowire.EndGroupType)
		}
	}
	return b
}

// New creates and populates a message of type mt.
func New(r *sim.Rng, mt protoreflect.MessageType, o Opts) proto.Message {
	m := mt.New()
	Populate(r, m, o)
	return m.Interface()
}

// leadsToLazy reports whether md has a singular message field whose type declares a lazy field.
func leadsToLazy(md protoreflect.MessageDescriptor) bool {
	r := false
	fds := md.Fields()
	for i := 0; i < fds.Len(); i++ {
		fd := fds.Get(i)
		if fd.Message() != nil && !fd.IsList() && !fd.IsMap() && HasLazyField(fd.Message()) {
			r = true
		}
	}
	return r
}

// IsLazy reports whether fd is declared [lazy = true].
func IsLazy(fd protoreflect.FieldDescriptor) bool {
	l, ok := fd.(interface{ IsLazy() bool })
	return ok && l.IsLazy()
}

// IsMessageSet reports whether md uses the MessageSet wire format.
func IsMessageSet(md protoreflect.MessageDescriptor) bool { return messageset.IsMessageSet(md) }
