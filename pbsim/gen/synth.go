package gen

// Synthetic editions files: a seeded FileDescriptorProto (edition 2023) whose
// file-level and field-level feature settings (field_presence,
// repeated_field_encoding, message_encoding, enum_type) are chosen at random
// within what protoc accepts, together with the generator's own statement of
// what each field must therefore look like (explicit presence or not, packed
// or not, delimited or not). The file is turned into descriptors by either of
// the library's two builders — reflect/protodesc (from the message) and
// internal/filedesc (from the serialized bytes, as generated code does) —
// which resolve features separately; messages over them are dynamicpb.

import (
	"fmt"

	"google.golang.org/protobuf/internal/filedesc"
	"google.golang.org/protobuf/proto"
	"google.golang.org/protobuf/reflect/protodesc"
	"google.golang.org/protobuf/reflect/protoreflect"
	"google.golang.org/protobuf/reflect/protoregistry"
	"google.golang.org/protobuf/types/descriptorpb"
	"google.golang.org/protobuf/zverifsim/sim"
)

// SynthField is the generator's own record of one field of the synthetic message.
type SynthField struct {
	Name     string
	Num      int32
	Declared string // the feature settings written on the field, for messages
	Presence bool   // must track presence explicitly
	Packed   bool   // repeated scalar that must use packed encoding
	Group    bool   // message-typed field that must use delimited encoding
	Required bool
}

// SynthSpec is what the generator says about a synthetic file.
type SynthSpec struct {
	Seed       uint64
	FileDecl   string
	EnumClosed bool
	Fields     map[protoreflect.FullName]*SynthField // by full name, all messages of the file
}

type featureChoice struct {
	presence descriptorpb.FeatureSet_FieldPresence
	enc      descriptorpb.FeatureSet_RepeatedFieldEncoding
	msgenc   descriptorpb.FeatureSet_MessageEncoding
	enum     descriptorpb.FeatureSet_EnumType
}

func (c featureChoice) set() *descriptorpb.FeatureSet {
	fs := &descriptorpb.FeatureSet{}
	any := false
	if c.presence != 0 {
		fs.FieldPresence = c.presence.Enum()
		any = true
	}
	if c.enc != 0 {
		fs.RepeatedFieldEncoding = c.enc.Enum()
		any = true
	}
	if c.msgenc != 0 {
		fs.MessageEncoding = c.msgenc.Enum()
		any = true
	}
	if c.enum != 0 {
		fs.EnumType = c.enum.Enum()
		any = true
	}
	if !any {
		return nil
	}
	return fs
}

func (c featureChoice) String() string {
	s := ""
	if c.presence != 0 {
		s += " field_presence=" + c.presence.String()
	}
	if c.enc != 0 {
		s += " repeated_field_encoding=" + c.enc.String()
	}
	if c.msgenc != 0 {
		s += " message_encoding=" + c.msgenc.String()
	}
	if c.enum != 0 {
		s += " enum_type=" + c.enum.String()
	}
	if s == "" {
		return " (none)"
	}
	return s
}

var synthScalarTypes = []descriptorpb.FieldDescriptorProto_Type{
	descriptorpb.FieldDescriptorProto_TYPE_INT32, descriptorpb.FieldDescriptorProto_TYPE_INT64, descriptorpb.FieldDescriptorProto_TYPE_UINT32,
	descriptorpb.FieldDescriptorProto_TYPE_UINT64, descriptorpb.FieldDescriptorProto_TYPE_SINT32, descriptorpb.FieldDescriptorProto_TYPE_SINT64,
	descriptorpb.FieldDescriptorProto_TYPE_FIXED32, descriptorpb.FieldDescriptorProto_TYPE_FIXED64, descriptorpb.FieldDescriptorProto_TYPE_SFIXED32,
	descriptorpb.FieldDescriptorProto_TYPE_SFIXED64, descriptorpb.FieldDescriptorProto_TYPE_FLOAT, descriptorpb.FieldDescriptorProto_TYPE_DOUBLE,
	descriptorpb.FieldDescriptorProto_TYPE_BOOL, descriptorpb.FieldDescriptorProto_TYPE_STRING, descriptorpb.FieldDescriptorProto_TYPE_BYTES,
	descriptorpb.FieldDescriptorProto_TYPE_ENUM,
}

func synthPackable(t descriptorpb.FieldDescriptorProto_Type) bool {
	switch t {
	case descriptorpb.FieldDescriptorProto_TYPE_STRING, descriptorpb.FieldDescriptorProto_TYPE_BYTES, descriptorpb.FieldDescriptorProto_TYPE_MESSAGE, descriptorpb.FieldDescriptorProto_TYPE_GROUP:
		return false
	}
	return true
}

// MakeSynth derives the file and the generator's statement about it from the seed.
func MakeSynth(seed uint64) (*SynthSpec, *descriptorpb.FileDescriptorProto) {
	r := sim.NewRng(seed | 1)
	pkg := fmt.Sprintf("pbsim.synth.s%x", seed)
	spec := &SynthSpec{Seed: seed, Fields: map[protoreflect.FullName]*SynthField{}}
	var file featureChoice
	if r.Chance(1, 2) {
		file.presence = []descriptorpb.FeatureSet_FieldPresence{descriptorpb.FeatureSet_EXPLICIT, descriptorpb.FeatureSet_IMPLICIT, descriptorpb.FeatureSet_IMPLICIT}[r.Intn(3)]
	}
	if r.Chance(1, 2) {
		file.enc = []descriptorpb.FeatureSet_RepeatedFieldEncoding{descriptorpb.FeatureSet_PACKED, descriptorpb.FeatureSet_EXPANDED, descriptorpb.FeatureSet_EXPANDED}[r.Intn(3)]
	}
	if r.Chance(1, 3) {
		file.msgenc = []descriptorpb.FeatureSet_MessageEncoding{descriptorpb.FeatureSet_LENGTH_PREFIXED, descriptorpb.FeatureSet_DELIMITED, descriptorpb.FeatureSet_DELIMITED}[r.Intn(3)]
	}
	if r.Chance(1, 3) {
		file.enum = []descriptorpb.FeatureSet_EnumType{descriptorpb.FeatureSet_OPEN, descriptorpb.FeatureSet_CLOSED}[r.Intn(2)]
	}
	spec.FileDecl = file.String()
	// the enum may override the file's enum_type
	var enumChoice featureChoice
	if r.Chance(1, 4) {
		enumChoice.enum = []descriptorpb.FeatureSet_EnumType{descriptorpb.FeatureSet_OPEN, descriptorpb.FeatureSet_CLOSED}[r.Intn(2)]
	}
	spec.EnumClosed = enumChoice.enum == descriptorpb.FeatureSet_CLOSED || (enumChoice.enum == 0 && file.enum == descriptorpb.FeatureSet_CLOSED)

	fdp := &descriptorpb.FileDescriptorProto{
		Name:    proto.String(fmt.Sprintf("pbsim/synth/s%x.proto", seed)),
		Package: proto.String(pkg),
		Syntax:  proto.String("editions"),
		Edition: descriptorpb.Edition_EDITION_2023.Enum(),
	}
	if fs := file.set(); fs != nil {
		fdp.Options = &descriptorpb.FileOptions{Features: fs}
	}
	en := &descriptorpb.EnumDescriptorProto{Name: proto.String("E"), Value: []*descriptorpb.EnumValueDescriptorProto{
		{Name: proto.String("E_ZERO"), Number: proto.Int32(0)}, {Name: proto.String("E_ONE"), Number: proto.Int32(1)}, {Name: proto.String("E_TWO"), Number: proto.Int32(2)}, {Name: proto.String("E_NEG"), Number: proto.Int32(-3)}}}
	if fs := enumChoice.set(); fs != nil {
		en.Options = &descriptorpb.EnumOptions{Features: fs}
	}
	fdp.EnumType = []*descriptorpb.EnumDescriptorProto{en}

	// over lays a setting on what is inherited (file <- enclosing messages <- message <- field)
	over := func(inherited, c featureChoice) featureChoice {
		if c.presence != 0 {
			inherited.presence = c.presence
		}
		if c.enc != 0 {
			inherited.enc = c.enc
		}
		if c.msgenc != 0 {
			inherited.msgenc = c.msgenc
		}
		return inherited
	}
	fileEff := over(featureChoice{presence: descriptorpb.FeatureSet_EXPLICIT, enc: descriptorpb.FeatureSet_PACKED, msgenc: descriptorpb.FeatureSet_LENGTH_PREFIXED}, file)
	var msgEff featureChoice // what the fields of the message being built inherit
	resolvedPresence := func(c featureChoice) descriptorpb.FeatureSet_FieldPresence { return over(msgEff, c).presence }
	resolvedPacked := func(c featureChoice) bool { return over(msgEff, c).enc == descriptorpb.FeatureSet_PACKED }
	resolvedDelim := func(c featureChoice) bool { return over(msgEff, c).msgenc == descriptorpb.FeatureSet_DELIMITED }
	// a message may carry settings of its own (protoc restricts these features to files and fields; the
	// runtime's builders accept them on messages and resolve along the file-message-field chain, and
	// hand-built or dynamically loaded schemas can carry them)
	msgChoice := func() featureChoice {
		var c featureChoice
		if !r.Chance(1, 4) {
			return c
		}
		switch r.Intn(3) {
		case 0:
			c.presence = []descriptorpb.FeatureSet_FieldPresence{descriptorpb.FeatureSet_EXPLICIT, descriptorpb.FeatureSet_IMPLICIT}[r.Intn(2)]
		case 1:
			c.enc = []descriptorpb.FeatureSet_RepeatedFieldEncoding{descriptorpb.FeatureSet_PACKED, descriptorpb.FeatureSet_EXPANDED}[r.Intn(2)]
		default:
			c.msgenc = []descriptorpb.FeatureSet_MessageEncoding{descriptorpb.FeatureSet_LENGTH_PREFIXED, descriptorpb.FeatureSet_DELIMITED}[r.Intn(2)]
		}
		return c
	}

	build := func(inherited, own featureChoice, scope, msgName string, nScalar, nRep, nMsg int, withOneof, withMaps bool, subType string) *descriptorpb.DescriptorProto {
		md := &descriptorpb.DescriptorProto{Name: proto.String(msgName)}
		if fs := own.set(); fs != nil {
			md.Options = &descriptorpb.MessageOptions{Features: fs}
		}
		msgEff = over(inherited, own)
		full := protoreflect.FullName(pkg + "." + scope + msgName)
		num := int32(0)
		add := func(name string, t descriptorpb.FieldDescriptorProto_Type, rep bool, typeName string, c featureChoice, oneof int) *descriptorpb.FieldDescriptorProto {
			num += int32(r.Range(1, 3))
			if num >= 19000 && num <= 19999 {
				num = 20000
			}
			f := &descriptorpb.FieldDescriptorProto{Name: proto.String(name), Number: proto.Int32(num), Type: t.Enum(), Label: descriptorpb.FieldDescriptorProto_LABEL_OPTIONAL.Enum()}
			if rep {
				f.Label = descriptorpb.FieldDescriptorProto_LABEL_REPEATED.Enum()
			}
			if typeName != "" {
				f.TypeName = proto.String("." + pkg + "." + typeName)
			}
			if fs := c.set(); fs != nil {
				f.Options = &descriptorpb.FieldOptions{Features: fs}
			}
			if oneof >= 0 {
				f.OneofIndex = proto.Int32(int32(oneof))
			}
			md.Field = append(md.Field, f)
			return f
		}
		for i := 0; i < nScalar; i++ {
			t := synthScalarTypes[r.Intn(len(synthScalarTypes))]
			var c featureChoice
			switch r.Intn(10) {
			case 0, 1:
				c.presence = descriptorpb.FeatureSet_EXPLICIT
			case 2, 3, 4:
				c.presence = descriptorpb.FeatureSet_IMPLICIT
			case 5:
				c.presence = descriptorpb.FeatureSet_LEGACY_REQUIRED
			}
			tn := ""
			if t == descriptorpb.FieldDescriptorProto_TYPE_ENUM {
				tn = "E"
				if spec.EnumClosed && resolvedPresence(c) == descriptorpb.FeatureSet_IMPLICIT {
					c.presence = descriptorpb.FeatureSet_EXPLICIT // implicit presence needs an open enum
				}
			}
			name := fmt.Sprintf("s%d", i)
			add(name, t, false, tn, c, -1)
			rp := resolvedPresence(c)
			spec.Fields[full.Append(protoreflect.Name(name))] = &SynthField{Name: name, Num: num, Declared: c.String(), Presence: rp != descriptorpb.FeatureSet_IMPLICIT, Required: rp == descriptorpb.FeatureSet_LEGACY_REQUIRED}
		}
		for i := 0; i < nRep; i++ {
			t := synthScalarTypes[r.Intn(len(synthScalarTypes))]
			var c featureChoice
			if synthPackable(t) {
				switch r.Intn(4) {
				case 0:
					c.enc = descriptorpb.FeatureSet_PACKED
				case 1:
					c.enc = descriptorpb.FeatureSet_EXPANDED
				}
			}
			tn := ""
			if t == descriptorpb.FieldDescriptorProto_TYPE_ENUM {
				tn = "E"
			}
			name := fmt.Sprintf("r%d", i)
			add(name, t, true, tn, c, -1)
			spec.Fields[full.Append(protoreflect.Name(name))] = &SynthField{Name: name, Num: num, Declared: c.String(), Packed: synthPackable(t) && resolvedPacked(c)}
		}
		if subType != "" {
			for i := 0; i < nMsg; i++ {
				var c featureChoice
				switch r.Intn(4) {
				case 0:
					c.msgenc = descriptorpb.FeatureSet_DELIMITED
				case 1:
					c.msgenc = descriptorpb.FeatureSet_LENGTH_PREFIXED
				}
				rep := i%2 == 1
				if !rep && r.Chance(1, 6) {
					c.presence = descriptorpb.FeatureSet_LEGACY_REQUIRED
				}
				name := fmt.Sprintf("m%d", i)
				add(name, descriptorpb.FieldDescriptorProto_TYPE_MESSAGE, rep, subType, c, -1)
				spec.Fields[full.Append(protoreflect.Name(name))] = &SynthField{Name: name, Num: num, Declared: c.String(), Presence: !rep, Group: resolvedDelim(c), Required: c.presence == descriptorpb.FeatureSet_LEGACY_REQUIRED}
			}
		}
		if withMaps {
			// map<string, int32> and map<int32, Sub>: never delimited, never packed, no presence
			for i, vt := range []descriptorpb.FieldDescriptorProto_Type{descriptorpb.FieldDescriptorProto_TYPE_INT32, descriptorpb.FieldDescriptorProto_TYPE_MESSAGE} {
				if vt == descriptorpb.FieldDescriptorProto_TYPE_MESSAGE && subType == "" {
					continue
				}
				name := fmt.Sprintf("mp%d", i)
				entry := fmt.Sprintf("Mp%dEntry", i)
				kt := descriptorpb.FieldDescriptorProto_TYPE_STRING
				if i == 1 {
					kt = descriptorpb.FieldDescriptorProto_TYPE_INT32
				}
				ed := &descriptorpb.DescriptorProto{Name: proto.String(entry), Options: &descriptorpb.MessageOptions{MapEntry: proto.Bool(true)}}
				ed.Field = append(ed.Field, &descriptorpb.FieldDescriptorProto{Name: proto.String("key"), Number: proto.Int32(1), Type: kt.Enum(), Label: descriptorpb.FieldDescriptorProto_LABEL_OPTIONAL.Enum()})
				vf := &descriptorpb.FieldDescriptorProto{Name: proto.String("value"), Number: proto.Int32(2), Type: vt.Enum(), Label: descriptorpb.FieldDescriptorProto_LABEL_OPTIONAL.Enum()}
				if vt == descriptorpb.FieldDescriptorProto_TYPE_MESSAGE {
					vf.TypeName = proto.String("." + pkg + "." + subType)
				}
				ed.Field = append(ed.Field, vf)
				md.NestedType = append(md.NestedType, ed)
				add(name, descriptorpb.FieldDescriptorProto_TYPE_MESSAGE, true, scope+msgName+"."+entry, featureChoice{}, -1)
				spec.Fields[full.Append(protoreflect.Name(name))] = &SynthField{Name: name, Num: num, Declared: " (map)"}
			}
		}
		if withOneof {
			md.OneofDecl = []*descriptorpb.OneofDescriptorProto{{Name: proto.String("o")}}
			for i, n := 0, r.Range(2, 4); i < n; i++ {
				t := synthScalarTypes[r.Intn(len(synthScalarTypes))]
				tn := ""
				var c featureChoice
				if i == 1 && subType != "" {
					t, tn = descriptorpb.FieldDescriptorProto_TYPE_MESSAGE, subType
					if r.Chance(1, 3) {
						c.msgenc = descriptorpb.FeatureSet_DELIMITED
					}
				} else if t == descriptorpb.FieldDescriptorProto_TYPE_ENUM {
					tn = "E"
				}
				name := fmt.Sprintf("o%d", i)
				add(name, t, false, tn, c, 0)
				spec.Fields[full.Append(protoreflect.Name(name))] = &SynthField{Name: name, Num: num, Declared: c.String(), Presence: true, Group: t == descriptorpb.FieldDescriptorProto_TYPE_MESSAGE && resolvedDelim(c)}
			}
		}
		return md
	}
	// Sub is declared either next to Main or nested inside it (features then pass through Main)
	subScope, subRef := "", "Sub"
	if r.Chance(1, 2) {
		subScope, subRef = "Main.", "Main.Sub"
	}
	mainOwn, subOwn := msgChoice(), msgChoice()
	mainEff := over(fileEff, mainOwn)
	subInherits := fileEff
	if subScope != "" {
		subInherits = mainEff
	}
	spec.FileDecl += "; message Main:" + mainOwn.String() + "; message " + subRef + ":" + subOwn.String()
	sub := build(subInherits, subOwn, subScope, "Sub", r.Range(2, 5), r.Range(0, 2), 0, false, false, "")
	main := build(fileEff, mainOwn, "", "Main", r.Range(5, 14), r.Range(1, 5), r.Range(1, 3), true, r.Chance(2, 3), subRef)
	if subScope != "" {
		main.NestedType = append(main.NestedType, sub)
		fdp.MessageType = []*descriptorpb.DescriptorProto{main}
	} else {
		fdp.MessageType = []*descriptorpb.DescriptorProto{main, sub}
	}
	return spec, fdp
}

type synthBuilt struct {
	spec *SynthSpec
	md   [2]protoreflect.MessageDescriptor
	err  [2]error
}

var synthCache = map[uint64]*synthBuilt{}
var synthOrder []uint64

// Synth builds the synthetic file of the seed with one of the two descriptor builders
// (0: reflect/protodesc from the message, 1: internal/filedesc from the serialized bytes)
// and returns its Main message descriptor.
func Synth(seed uint64, builder int) (*SynthSpec, protoreflect.MessageDescriptor, error) {
	sb := synthCache[seed]
	if sb == nil {
		spec, fdp := MakeSynth(seed)
		sb = &synthBuilt{spec: spec}
		main := protoreflect.FullName(fdp.GetPackage() + ".Main")
		if fd, err := protodesc.NewFile(fdp, new(protoregistry.Files)); err != nil {
			sb.err[0] = err
		} else {
			sb.md[0] = fd.Messages().ByName(main.Name())
		}
		raw, err := proto.MarshalOptions{Deterministic: true}.Marshal(fdp)
		if err != nil {
			sb.err[1] = err
		} else if p := sim.Protect(func() {
			out := filedesc.Builder{RawDescriptor: raw, FileRegistry: new(protoregistry.Files)}.Build()
			sb.md[1] = out.File.Messages().ByName(main.Name())
		}); p != "" {
			sb.err[1] = fmt.Errorf("filedesc.Builder panicked: %s", p)
		}
		synthCache[seed] = sb
		synthOrder = append(synthOrder, seed)
		if len(synthOrder) > 16 {
			delete(synthCache, synthOrder[0])
			synthOrder = synthOrder[1:]
		}
	}
	return sb.spec, sb.md[builder&1], sb.err[builder&1]
}
