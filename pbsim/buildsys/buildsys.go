// Package buildsys prepares the instrumented build of the harness: it derives
// the go build -overlay description from /repo's current working tree (import
// rewriting of sync and sync/atomic), maps the shim packages into the
// repository's internal/ namespace, and patches the four runtime files that
// decide Go map iteration order. Nothing is written into /repo or GOROOT;
// every generated file lives in a content-addressed store under the work
// directory, so concurrent checks share files safely and the Go build cache
// stays warm.
package buildsys

import (
	"bytes"
	"crypto/sha256"
	"encoding/hex"
	"encoding/json"
	"fmt"
	"go/parser"
	"go/token"
	"os"
	"os/exec"
	"path/filepath"
	"regexp"
	"sort"
	"strconv"
	"strings"
)

// VerifDir is the root of the verification tree in use: /verif, or a snapshot
// of it (PBSIM_ROOT, set by ./check to the directory it lives in).
var (
	VerifDir = verifRoot()
	PbsimDir = VerifDir + "/pbsim"
	WorkDir  = VerifDir + "/.work"
)

func verifRoot() string {
	if r := os.Getenv("PBSIM_ROOT"); r != "" {
		return r
	}
	return "/verif"
}

const (
	RepoDir   = "/repo"
	ShimBase  = "google.golang.org/protobuf/internal/"
	SyncShim  = ShimBase + "simsync"
	AtomShim  = ShimBase + "simatomic"
	goEnvBase = "GOFLAGS=-mod=mod GOPROXY=off GOSUMDB=off GOTOOLCHAIN=local"
)

// GoEnv returns the environment for every go invocation.
func GoEnv() []string {
	env := os.Environ()
	out := env[:0:0]
	for _, e := range env {
		if strings.HasPrefix(e, "GOFLAGS=") || strings.HasPrefix(e, "GOPROXY=") || strings.HasPrefix(e, "GOSUMDB=") || strings.HasPrefix(e, "GOTOOLCHAIN=") || strings.HasPrefix(e, "GOWORK=") {
			continue
		}
		out = append(out, e)
	}
	out = append(out, strings.Fields(goEnvBase)...)
	out = append(out, "GOWORK=off")
	return out
}

// cas stores content under a content-derived path and returns the path.
func cas(name string, content []byte) (string, error) {
	sum := sha256.Sum256(content)
	dir := filepath.Join(WorkDir, "cas", hex.EncodeToString(sum[:8]))
	p := filepath.Join(dir, name)
	if st, err := os.Stat(p); err == nil && st.Size() == int64(len(content)) {
		return p, nil
	}
	if err := os.MkdirAll(dir, 0o755); err != nil {
		return "", err
	}
	tmp, err := os.CreateTemp(dir, ".tmp-*")
	if err != nil {
		return "", err
	}
	if _, err := tmp.Write(content); err != nil {
		return "", err
	}
	tmp.Close()
	if err := os.Rename(tmp.Name(), p); err != nil {
		return "", err
	}
	return p, nil
}

// RewriteStats says what the import rewriter did.
type RewriteStats struct {
	FilesScanned   int
	FilesRewritten int
	SyncImports    int
	AtomicImports  int
}

// rewriteImports returns the file content with import specs of "sync" and
// "sync/atomic" redirected to the shims, or nil if the file imports neither.
func rewriteImports(path string, src []byte) ([]byte, int, int, error) {
	fset := token.NewFileSet()
	f, err := parser.ParseFile(fset, path, src, parser.ImportsOnly|parser.ParseComments)
	if err != nil {
		return nil, 0, 0, err
	}
	type edit struct {
		start, end int
		text       string
	}
	var edits []edit
	ns, na := 0, 0
	for _, im := range f.Imports {
		p, err := strconv.Unquote(im.Path.Value)
		if err != nil {
			continue
		}
		var shim, defname string
		switch p {
		case "sync":
			shim, defname = SyncShim, "sync"
			ns++
		case "sync/atomic":
			shim, defname = AtomShim, "atomic"
			na++
		default:
			continue
		}
		start := fset.Position(im.Pos()).Offset
		end := fset.Position(im.End()).Offset
		name := defname
		if im.Name != nil {
			name = im.Name.Name
		}
		edits = append(edits, edit{start, end, name + " " + strconv.Quote(shim)})
	}
	if len(edits) == 0 {
		return nil, 0, 0, nil
	}
	sort.Slice(edits, func(i, j int) bool { return edits[i].start > edits[j].start })
	out := append([]byte(nil), src...)
	for _, e := range edits {
		out = append(out[:e.start:e.start], append([]byte(e.text), out[e.end:]...)...)
	}
	return out, ns, na, nil
}

// Overlay is the JSON document accepted by go build -overlay.
type Overlay struct {
	Replace map[string]string
}

// Build describes a finished preparation.
type Build struct {
	OverlayPath string
	Rewrite     RewriteStats
	RuntimeInfo map[string]int // pattern -> number of replacements
}

func goroot() (string, error) {
	cmd := exec.Command("go", "env", "GOROOT")
	cmd.Env = GoEnv()
	out, err := cmd.Output()
	if err != nil {
		return "", err
	}
	return strings.TrimSpace(string(out)), nil
}

type rtEdit struct {
	file  string
	old   string
	new   string
	count int // expected number of occurrences; -1 = at least one
}

var unpatchedRand = regexp.MustCompile(`[^A-Za-z0-9_]rand\(\)`)

var rtEdits = []rtEdit{
	{"map.go", "uint32(rand())", "uint32(simRand())", 5},
	{"map.go", "uintptr(rand())", "uintptr(simRand())", 1},
	{"map.go", "int(rand())", "int(simRand())", 2},
	{"map_fast32.go", "uint32(rand())", "uint32(simRand())", 1},
	{"map_fast64.go", "uint32(rand())", "uint32(simRand())", 1},
	{"map_faststr.go", "uint32(rand())", "uint32(simRand())", 1},
	{"rand.go", "func rand32() uint32 {\n\treturn uint32(rand())", "func rand32() uint32 {\n\treturn uint32(simRand())", 1},
	{"alg.go", "bootstrapRand()", "simBootstrapRand()", 2},
}

// patchRuntime produces overlay entries for the runtime files.
func patchRuntime(ov *Overlay, info map[string]int) error {
	root, err := goroot()
	if err != nil {
		return fmt.Errorf("go env GOROOT: %w", err)
	}
	rt := filepath.Join(root, "src", "runtime")
	contents := map[string][]byte{}
	for _, e := range rtEdits {
		b, ok := contents[e.file]
		if !ok {
			b, err = os.ReadFile(filepath.Join(rt, e.file))
			if err != nil {
				return err
			}
		}
		n := bytes.Count(b, []byte(e.old))
		if n != e.count {
			return fmt.Errorf("runtime patch: %s: pattern %q found %d times, expected %d (unsupported toolchain?)", e.file, e.old, n, e.count)
		}
		info[e.file+":"+e.old] = n
		contents[e.file] = bytes.ReplaceAll(b, []byte(e.old), []byte(e.new))
	}
	// No unpatched rand() call may remain in the map files.
	for _, f := range []string{"map.go", "map_fast32.go", "map_fast64.go", "map_faststr.go"} {
		if unpatchedRand.Match(stripComments(contents[f])) {
			return fmt.Errorf("runtime patch: %s still contains an unpatched rand() call", f)
		}
	}
	for f, b := range contents {
		p, err := cas(f, b)
		if err != nil {
			return err
		}
		ov.Replace[filepath.Join(rt, f)] = p
	}
	z, err := os.ReadFile(filepath.Join(PbsimDir, "rtpatch", "zsim.go.txt"))
	if err != nil {
		return err
	}
	p, err := cas("zsim.go", z)
	if err != nil {
		return err
	}
	ov.Replace[filepath.Join(rt, "zsim.go")] = p
	return nil
}

func stripComments(b []byte) []byte {
	var out []byte
	for _, line := range bytes.Split(b, []byte("\n")) {
		if i := bytes.Index(line, []byte("//")); i >= 0 {
			line = line[:i]
		}
		out = append(out, line...)
		out = append(out, '\n')
	}
	return out
}

// Prepare scans /repo, writes the overlay file and returns its path.
// extra maps additional repo-relative files to replacement content (used by
// the sensitivity self-test to mutate the tree without touching it).
func Prepare(extra map[string][]byte) (*Build, error) {
	ov := &Overlay{Replace: map[string]string{}}
	b := &Build{RuntimeInfo: map[string]int{}}
	if err := patchRuntime(ov, b.RuntimeInfo); err != nil {
		return nil, err
	}
	// shim packages
	for _, pkg := range []string{"simcore", "simsync", "simatomic"} {
		dir := filepath.Join(PbsimDir, "core", pkg)
		ents, err := os.ReadDir(dir)
		if err != nil {
			return nil, err
		}
		for _, e := range ents {
			if !strings.HasSuffix(e.Name(), ".go") {
				continue
			}
			ov.Replace[filepath.Join(RepoDir, "internal", pkg, e.Name())] = filepath.Join(dir, e.Name())
		}
	}
	visited := map[string]bool{}
	err := filepath.WalkDir(RepoDir, func(path string, d os.DirEntry, err error) error {
		if err != nil {
			return err
		}
		if d.IsDir() {
			n := d.Name()
			if n == ".git" || n == "testdata" || (strings.HasPrefix(n, ".") && path != RepoDir) {
				return filepath.SkipDir
			}
			return nil
		}
		if !strings.HasSuffix(path, ".go") || strings.HasSuffix(path, "_test.go") {
			return nil
		}
		rel, _ := filepath.Rel(RepoDir, path)
		visited[rel] = true
		var src []byte
		if c, ok := extra[rel]; ok {
			src = c
		} else {
			src, err = os.ReadFile(path)
			if err != nil {
				return err
			}
		}
		b.Rewrite.FilesScanned++
		if !bytes.Contains(src, []byte(`"sync`)) {
			if _, ok := extra[rel]; ok {
				p, err := cas(filepath.Base(path), src)
				if err != nil {
					return err
				}
				ov.Replace[path] = p
			}
			return nil
		}
		out, ns, na, err := rewriteImports(path, src)
		if err != nil {
			// unparsable file: leave it to the compiler to complain
			return nil
		}
		if out == nil {
			out = src
			if _, ok := extra[rel]; !ok {
				return nil
			}
		}
		b.Rewrite.FilesRewritten++
		b.Rewrite.SyncImports += ns
		b.Rewrite.AtomicImports += na
		p, err := cas(filepath.Base(path), out)
		if err != nil {
			return err
		}
		ov.Replace[path] = p
		return nil
	})
	if err != nil {
		return nil, err
	}
	// files a self-test patch adds to the tree
	var added []string
	for rel := range extra {
		if !visited[rel] && strings.HasSuffix(rel, ".go") && !strings.HasSuffix(rel, "_test.go") {
			added = append(added, rel)
		}
	}
	sort.Strings(added)
	for _, rel := range added {
		src := extra[rel]
		if out, _, _, err := rewriteImports(rel, src); err == nil && out != nil {
			src = out
		}
		p, err := cas(filepath.Base(rel), src)
		if err != nil {
			return nil, err
		}
		ov.Replace[filepath.Join(RepoDir, rel)] = p
	}
	js, err := json.MarshalIndent(ov, "", " ")
	if err != nil {
		return nil, err
	}
	p, err := cas("overlay.json", js)
	if err != nil {
		return nil, err
	}
	b.OverlayPath = p
	return b, nil
}

// BuildWorker compiles the instrumented worker binary.
func BuildWorker(b *Build, out string, race bool, tags []string, pkg string) ([]byte, error) {
	args := []string{"build", "-overlay", b.OverlayPath, "-o", out}
	if race {
		args = append(args, "-race")
	}
	if len(tags) > 0 {
		args = append(args, "-tags", strings.Join(tags, ","))
	}
	args = append(args, pkg)
	cmd := exec.Command("go", args...)
	cmd.Dir = PbsimDir
	cmd.Env = GoEnv()
	return cmd.CombinedOutput()
}
