package model

// absmsg.go: an abstract protobuf message, the reference model behind C28,
// C11 and C12. It is written against the protoreflect *contract* (doc comments
// of protoreflect.Message / List / Map and the presence rules of the language
// guide) and shares no code with internal/impl or dynamicpb. Descriptors are
// used only as the schema: names, numbers, kinds, cardinality, oneof
// membership, declared defaults.

import (
	"fmt"
	"math"
	"sort"
	"strings"

	"google.golang.org/protobuf/reflect/protoreflect"
	"google.golang.org/protobuf/types/descriptorpb"
)

// Scalar is a scalar value in a representation of the model's own.
type Scalar struct {
	Kind protoreflect.Kind
	I    int64   // integers, enums, bool (0/1)
	U    uint64  // unsigned integers
	F    float64 // float, double
	S    string  // string, bytes (as string)
}

func (s Scalar) String() string {
	switch s.Kind {
	case protoreflect.BoolKind:
		return fmt.Sprint(s.I != 0)
	case protoreflect.Uint32Kind, protoreflect.Uint64Kind, protoreflect.Fixed32Kind, protoreflect.Fixed64Kind:
		return fmt.Sprint(s.U)
	case protoreflect.FloatKind, protoreflect.DoubleKind:
		if math.IsNaN(s.F) {
			return "NaN"
		}
		return fmt.Sprintf("%v/%x", s.F, math.Float64bits(s.F))
	case protoreflect.StringKind:
		return fmt.Sprintf("%q", s.S)
	case protoreflect.BytesKind:
		return fmt.Sprintf("b%q", s.S)
	}
	return fmt.Sprint(s.I)
}

func (s Scalar) IsZero() bool {
	switch s.Kind {
	case protoreflect.Uint32Kind, protoreflect.Uint64Kind, protoreflect.Fixed32Kind, protoreflect.Fixed64Kind:
		return s.U == 0
	case protoreflect.FloatKind, protoreflect.DoubleKind:
		return s.F == 0 && !math.Signbit(s.F)
	case protoreflect.StringKind, protoreflect.BytesKind:
		return s.S == ""
	}
	return s.I == 0
}

// FromValue converts a protoreflect scalar value.
func FromValue(kind protoreflect.Kind, v protoreflect.Value) Scalar {
	s := Scalar{Kind: kind}
	switch kind {
	case protoreflect.BoolKind:
		if v.Bool() {
			s.I = 1
		}
	case protoreflect.EnumKind:
		s.I = int64(v.Enum())
	case protoreflect.Int32Kind, protoreflect.Sint32Kind, protoreflect.Sfixed32Kind, protoreflect.Int64Kind, protoreflect.Sint64Kind, protoreflect.Sfixed64Kind:
		s.I = v.Int()
	case protoreflect.Uint32Kind, protoreflect.Fixed32Kind, protoreflect.Uint64Kind, protoreflect.Fixed64Kind:
		s.U = v.Uint()
	case protoreflect.FloatKind, protoreflect.DoubleKind:
		s.F = v.Float()
	case protoreflect.StringKind:
		s.S = v.String()
	case protoreflect.BytesKind:
		s.S = string(v.Bytes())
	}
	return s
}

// ToValue converts back (for applying the same operation to the real message).
func (s Scalar) ToValue() protoreflect.Value {
	switch s.Kind {
	case protoreflect.BoolKind:
		return protoreflect.ValueOfBool(s.I != 0)
	case protoreflect.EnumKind:
		return protoreflect.ValueOfEnum(protoreflect.EnumNumber(s.I))
	case protoreflect.Int32Kind, protoreflect.Sint32Kind, protoreflect.Sfixed32Kind:
		return protoreflect.ValueOfInt32(int32(s.I))
	case protoreflect.Int64Kind, protoreflect.Sint64Kind, protoreflect.Sfixed64Kind:
		return protoreflect.ValueOfInt64(s.I)
	case protoreflect.Uint32Kind, protoreflect.Fixed32Kind:
		return protoreflect.ValueOfUint32(uint32(s.U))
	case protoreflect.Uint64Kind, protoreflect.Fixed64Kind:
		return protoreflect.ValueOfUint64(s.U)
	case protoreflect.FloatKind:
		return protoreflect.ValueOfFloat32(float32(s.F))
	case protoreflect.DoubleKind:
		return protoreflect.ValueOfFloat64(s.F)
	case protoreflect.StringKind:
		return protoreflect.ValueOfString(s.S)
	case protoreflect.BytesKind:
		return protoreflect.ValueOfBytes([]byte(s.S))
	}
	panic("model: not a scalar kind")
}

// AVal is the value of a populated field.
type AVal struct {
	S    Scalar           // singular scalar
	M    *AMsg            // singular message
	List []*AVal          // repeated (elements are S or M)
	Map  map[string]*AVal // map: rendered key -> value (S or M)
	Keys map[string]Scalar
}

// AMsg is an abstract message.
type AMsg struct {
	MD      protoreflect.MessageDescriptor
	Fields  map[protoreflect.FieldNumber]*AVal // populated fields only (incl. extensions)
	ExtDesc map[protoreflect.FieldNumber]protoreflect.FieldDescriptor
	Unknown string
}

func NewMsg(md protoreflect.MessageDescriptor) *AMsg {
	return &AMsg{MD: md, Fields: map[protoreflect.FieldNumber]*AVal{}, ExtDesc: map[protoreflect.FieldNumber]protoreflect.FieldDescriptor{}}
}

// ExplicitPresence is the model's own reading of the presence discipline:
// proto2 singular fields, proto3 optional / oneof members / message fields
// track presence explicitly; proto3 plain scalars do not; repeated and map
// fields never do. For editions the feature is resolved here, independently
// of both resolvers of the library (internal/filedesc and reflect/protodesc),
// from the declared options: features.field_presence on the field, else on
// an enclosing message (innermost first), else on the file, else the edition default (EXPLICIT for 2023 and 2024); message
// fields and oneof members always track presence.
func ExplicitPresence(fd protoreflect.FieldDescriptor) bool {
	if fd.IsList() || fd.IsMap() {
		return false
	}
	if fd.IsExtension() {
		return true
	}
	switch fd.Syntax() {
	case protoreflect.Proto2:
		return true
	case protoreflect.Proto3:
		return fd.Message() != nil || fd.ContainingOneof() != nil || fd.HasOptionalKeyword()
	}
	if fd.Message() != nil || fd.ContainingOneof() != nil {
		return true
	}
	// nearest explicit setting along the chain field <- enclosing messages <- file
	for d := protoreflect.Descriptor(fd); d != nil; d = d.Parent() {
		if fp, ok := declaredFieldPresence(d.Options()); ok {
			return fp != descriptorpb.FeatureSet_IMPLICIT
		}
		if _, isFile := d.(protoreflect.FileDescriptor); isFile {
			break
		}
	}
	return true
}

// declaredFieldPresence reads features.field_presence from a FieldOptions or FileOptions message
// (whatever concrete message type the descriptor hands out).
func declaredFieldPresence(opts protoreflect.ProtoMessage) (descriptorpb.FeatureSet_FieldPresence, bool) {
	if opts == nil {
		return 0, false
	}
	m := opts.ProtoReflect()
	if !m.IsValid() {
		return 0, false
	}
	ffd := m.Descriptor().Fields().ByName("features")
	if ffd == nil || !m.Has(ffd) {
		return 0, false
	}
	fs := m.Get(ffd).Message()
	pfd := fs.Descriptor().Fields().ByName("field_presence")
	if pfd == nil || !fs.Has(pfd) {
		return 0, false
	}
	v := descriptorpb.FeatureSet_FieldPresence(fs.Get(pfd).Enum())
	if v == descriptorpb.FeatureSet_FIELD_PRESENCE_UNKNOWN {
		return 0, false
	}
	return v, true
}

// Default returns the declared (or zero) default of a scalar field.
func Default(fd protoreflect.FieldDescriptor) Scalar {
	return FromValue(fd.Kind(), fd.Default())
}

func (m *AMsg) Has(fd protoreflect.FieldDescriptor) bool {
	_, ok := m.Fields[fd.Number()]
	return ok
}

// clearOthers implements oneof exclusivity.
func (m *AMsg) clearOthers(fd protoreflect.FieldDescriptor) {
	if od := fd.ContainingOneof(); od != nil {
		for i := 0; i < od.Fields().Len(); i++ {
			if o := od.Fields().Get(i); o.Number() != fd.Number() {
				delete(m.Fields, o.Number())
			}
		}
	}
}

func (m *AMsg) note(fd protoreflect.FieldDescriptor) {
	if fd.IsExtension() {
		m.ExtDesc[fd.Number()] = fd
	}
}

// SetScalar sets a singular scalar field.
func (m *AMsg) SetScalar(fd protoreflect.FieldDescriptor, s Scalar) {
	m.note(fd)
	if !ExplicitPresence(fd) && s.IsZero() {
		// an implicit-presence field holding its zero value is unpopulated
		delete(m.Fields, fd.Number())
		return
	}
	m.clearOthers(fd)
	m.Fields[fd.Number()] = &AVal{S: s}
}

// SetMsg sets a singular message field to a (possibly empty) message.
func (m *AMsg) SetMsg(fd protoreflect.FieldDescriptor, v *AMsg) {
	m.note(fd)
	m.clearOthers(fd)
	m.Fields[fd.Number()] = &AVal{M: v}
}

// MutableMsg returns the message in fd, creating an empty populated one if needed.
func (m *AMsg) MutableMsg(fd protoreflect.FieldDescriptor) *AMsg {
	m.note(fd)
	if v, ok := m.Fields[fd.Number()]; ok && v.M != nil {
		return v.M
	}
	m.clearOthers(fd)
	n := NewMsg(fd.Message())
	m.Fields[fd.Number()] = &AVal{M: n}
	return n
}

func (m *AMsg) Clear(fd protoreflect.FieldDescriptor) { delete(m.Fields, fd.Number()) }

// list / map access. A list or map is populated iff non-empty.
func (m *AMsg) list(fd protoreflect.FieldDescriptor) *AVal {
	v, ok := m.Fields[fd.Number()]
	if !ok {
		v = &AVal{}
	}
	return v
}

func (m *AMsg) putList(fd protoreflect.FieldDescriptor, v *AVal) {
	m.note(fd)
	if len(v.List) == 0 {
		delete(m.Fields, fd.Number())
		return
	}
	m.Fields[fd.Number()] = v
}

func (m *AMsg) Append(fd protoreflect.FieldDescriptor, e *AVal) {
	v := m.list(fd)
	v.List = append(v.List, e)
	m.putList(fd, v)
}

func (m *AMsg) ListSet(fd protoreflect.FieldDescriptor, i int, e *AVal) {
	v := m.list(fd)
	if i < len(v.List) {
		v.List[i] = e
	}
}

func (m *AMsg) Truncate(fd protoreflect.FieldDescriptor, n int) {
	v := m.list(fd)
	if n < len(v.List) {
		v.List = v.List[:n]
	}
	m.putList(fd, v)
}

func (m *AMsg) ListLen(fd protoreflect.FieldDescriptor) int { return len(m.list(fd).List) }

func (m *AMsg) MapSet(fd protoreflect.FieldDescriptor, k Scalar, e *AVal) {
	m.note(fd)
	v, ok := m.Fields[fd.Number()]
	if !ok {
		v = &AVal{Map: map[string]*AVal{}, Keys: map[string]Scalar{}}
		m.Fields[fd.Number()] = v
	}
	v.Map[k.String()] = e
	v.Keys[k.String()] = k
}

func (m *AMsg) MapClear(fd protoreflect.FieldDescriptor, k Scalar) {
	if v, ok := m.Fields[fd.Number()]; ok {
		delete(v.Map, k.String())
		delete(v.Keys, k.String())
		if len(v.Map) == 0 {
			delete(m.Fields, fd.Number())
		}
	}
}

func (m *AMsg) MapLen(fd protoreflect.FieldDescriptor) int {
	if v, ok := m.Fields[fd.Number()]; ok {
		return len(v.Map)
	}
	return 0
}

// MapKeysSorted returns the keys in rendering order.
func (m *AMsg) MapKeysSorted(fd protoreflect.FieldDescriptor) []Scalar {
	v, ok := m.Fields[fd.Number()]
	if !ok {
		return nil
	}
	var ks []string
	for k := range v.Map {
		ks = append(ks, k)
	}
	sort.Strings(ks)
	out := make([]Scalar, len(ks))
	for i, k := range ks {
		out[i] = v.Keys[k]
	}
	return out
}

// WhichOneof returns the number of the populated member or 0.
func (m *AMsg) WhichOneof(od protoreflect.OneofDescriptor) protoreflect.FieldNumber {
	for i := 0; i < od.Fields().Len(); i++ {
		if fd := od.Fields().Get(i); m.Has(fd) {
			return fd.Number()
		}
	}
	return 0
}

// Merge merges src into m following the language rules: singular scalars are
// overwritten, singular messages merged recursively, repeated appended, map
// entries overwritten per key, unknown bytes appended.
func (m *AMsg) Merge(src *AMsg) {
	nums := make([]int, 0, len(src.Fields))
	for n := range src.Fields {
		nums = append(nums, int(n))
	}
	sort.Ints(nums)
	for _, n := range nums {
		num := protoreflect.FieldNumber(n)
		sv := src.Fields[num]
		fd := src.MD.Fields().ByNumber(num)
		if fd == nil {
			fd = src.ExtDesc[num]
		}
		switch {
		case fd.IsMap():
			for ks, e := range sv.Map {
				m.MapSet(fd, sv.Keys[ks], e.Clone())
			}
		case fd.IsList():
			for _, e := range sv.List {
				m.Append(fd, e.Clone())
			}
		case fd.Message() != nil:
			m.MutableMsg(fd).Merge(sv.M)
		default:
			m.SetScalar(fd, sv.S)
		}
	}
	m.Unknown += src.Unknown
}

func (v *AVal) Clone() *AVal {
	c := &AVal{S: v.S}
	if v.M != nil {
		c.M = v.M.Clone()
	}
	for _, e := range v.List {
		c.List = append(c.List, e.Clone())
	}
	if v.Map != nil {
		c.Map = map[string]*AVal{}
		c.Keys = map[string]Scalar{}
		for k, e := range v.Map {
			c.Map[k] = e.Clone()
			c.Keys[k] = v.Keys[k]
		}
	}
	return c
}

func (m *AMsg) Clone() *AMsg {
	c := NewMsg(m.MD)
	for n, v := range m.Fields {
		c.Fields[n] = v.Clone()
	}
	for n, d := range m.ExtDesc {
		c.ExtDesc[n] = d
	}
	c.Unknown = m.Unknown
	return c
}

// Render produces the canonical observation of the abstract message: for every
// declared field Has and the value Get must return (default when
// unpopulated), oneof selection, populated extensions, unknown bytes.
func (m *AMsg) Render() string {
	var b strings.Builder
	m.render(&b, 0)
	return b.String()
}

// Lines renders the top-level observation one aspect per line: one line per
// declared field and populated extension ("f <num>:<+|-><value>"), one per
// oneof ("o <name>=<member>"), one for the unknown bytes ("u <hex>").
func (m *AMsg) Lines() []string {
	var out []string
	fds := m.MD.Fields()
	for i := 0; i < fds.Len(); i++ {
		var b strings.Builder
		m.renderField(&b, fds.Get(i), 0)
		out = append(out, "f"+b.String())
	}
	var xs []int
	for n := range m.Fields {
		if m.MD.Fields().ByNumber(n) == nil {
			xs = append(xs, int(n))
		}
	}
	sort.Ints(xs)
	for _, n := range xs {
		var b strings.Builder
		m.renderField(&b, m.ExtDesc[protoreflect.FieldNumber(n)], 0)
		out = append(out, "x"+b.String())
	}
	for i := 0; i < m.MD.Oneofs().Len(); i++ {
		od := m.MD.Oneofs().Get(i)
		out = append(out, fmt.Sprintf("o %s=%d", od.Name(), m.WhichOneof(od)))
	}
	out = append(out, fmt.Sprintf("u %x", m.Unknown))
	return out
}

func (m *AMsg) render(b *strings.Builder, depth int) {
	fds := m.MD.Fields()
	b.WriteString("{")
	for i := 0; i < fds.Len(); i++ {
		m.renderField(b, fds.Get(i), depth)
	}
	var xs []int
	for n := range m.Fields {
		if m.MD.Fields().ByNumber(n) == nil {
			xs = append(xs, int(n))
		}
	}
	sort.Ints(xs)
	for _, n := range xs {
		m.renderField(b, m.ExtDesc[protoreflect.FieldNumber(n)], depth)
	}
	for i := 0; i < m.MD.Oneofs().Len(); i++ {
		od := m.MD.Oneofs().Get(i)
		fmt.Fprintf(b, " oneof %s=%d", od.Name(), m.WhichOneof(od))
	}
	fmt.Fprintf(b, " unknown=%x}", m.Unknown)
}

func (m *AMsg) renderField(b *strings.Builder, fd protoreflect.FieldDescriptor, depth int) {
	v, has := m.Fields[fd.Number()]
	fmt.Fprintf(b, " %d:", fd.Number())
	if has {
		b.WriteString("+")
	} else {
		b.WriteString("-")
	}
	switch {
	case fd.IsMap():
		b.WriteString("map[")
		if has {
			for _, k := range m.MapKeysSorted(fd) {
				e := v.Map[k.String()]
				b.WriteString(k.String() + "=")
				if e.M != nil {
					e.M.render(b, depth+1)
				} else {
					b.WriteString(e.S.String())
				}
				b.WriteString(",")
			}
		}
		b.WriteString("]")
	case fd.IsList():
		b.WriteString("[")
		if has {
			for _, e := range v.List {
				if e.M != nil {
					e.M.render(b, depth+1)
				} else {
					b.WriteString(e.S.String())
				}
				b.WriteString(",")
			}
		}
		b.WriteString("]")
	case fd.Message() != nil:
		if has {
			v.M.render(b, depth+1)
		} else {
			b.WriteString("<empty>")
		}
	default:
		if has {
			b.WriteString(v.S.String())
		} else {
			b.WriteString(Default(fd).String())
		}
	}
}

// Populated returns the numbers of populated fields (what Range must visit, each once).
func (m *AMsg) Populated() []int {
	var out []int
	for n := range m.Fields {
		out = append(out, int(n))
	}
	sort.Ints(out)
	return out
}
