// Package model holds the small executable reference models used as oracles.
//
// nametable.go: the abstract conflict-checking name table behind C33, written
// from the documentation of protoregistry (not from its prefix-walking lookup
// code). It knows nothing about descriptors: a universe of files and types is
// described by names only, and the registry state is the set of registered
// universe members.
package model

import (
	"sort"
	"strings"
)

// UEnum, UMsg, UExt, USvc, UFile describe a file of the universe by names.
type UEnum struct {
	Name   string
	Values []string
}

type UExt struct {
	Name   string
	Number int32 // extends the universe's base message
}

type UMsg struct {
	Name   string
	Fields []string
	Oneofs []string // each oneof gets one member field named "<oneof>_f"
	Nested []UMsg
	Enums  []UEnum
	Exts   []UExt
}

type USvc struct {
	Name    string
	Methods []string
}

type UFile struct {
	Path  string
	Pkg   string
	Msgs  []UMsg
	Enums []UEnum
	Exts  []UExt
	Svcs  []USvc
}

// Decl is a declared full name with its kind.
type Decl struct {
	Name string
	Kind string // message, enum, enumvalue, extension, service, method, field, oneof
	Num  int32  // extension: field number
}

func join(scope, name string) string {
	if scope == "" {
		return name
	}
	return scope + "." + name
}

// TopLevel returns the names a file enters into the registry's name table:
// its top-level messages, enums, enum values (siblings of their enum),
// extensions and services.
func (f *UFile) TopLevel() []Decl {
	var out []Decl
	for _, e := range f.Enums {
		out = append(out, Decl{Name: join(f.Pkg, e.Name), Kind: "enum"})
		for _, v := range e.Values {
			out = append(out, Decl{Name: join(f.Pkg, v), Kind: "enumvalue"})
		}
	}
	for _, m := range f.Msgs {
		out = append(out, Decl{Name: join(f.Pkg, m.Name), Kind: "message"})
	}
	for _, x := range f.Exts {
		out = append(out, Decl{Name: join(f.Pkg, x.Name), Kind: "extension", Num: x.Number})
	}
	for _, s := range f.Svcs {
		out = append(out, Decl{Name: join(f.Pkg, s.Name), Kind: "service", Num: 0})
	}
	return out
}

func msgDecls(scope string, m *UMsg, out *[]Decl) {
	full := join(scope, m.Name)
	*out = append(*out, Decl{Name: full, Kind: "message"})
	for _, f := range m.Fields {
		*out = append(*out, Decl{Name: join(full, f), Kind: "field"})
	}
	for _, o := range m.Oneofs {
		*out = append(*out, Decl{Name: join(full, o), Kind: "oneof"})
		*out = append(*out, Decl{Name: join(full, o+"_f"), Kind: "field"})
	}
	for _, e := range m.Enums {
		*out = append(*out, Decl{Name: join(full, e.Name), Kind: "enum"})
		for _, v := range e.Values {
			*out = append(*out, Decl{Name: join(full, v), Kind: "enumvalue"})
		}
	}
	for _, x := range m.Exts {
		*out = append(*out, Decl{Name: join(full, x.Name), Kind: "extension", Num: x.Number})
	}
	for i := range m.Nested {
		msgDecls(full, &m.Nested[i], out)
	}
}

// AllDecls returns every declaration of the file that a lookup by full name
// must find once the file is registered.
func (f *UFile) AllDecls() []Decl {
	var out []Decl
	for _, e := range f.Enums {
		out = append(out, Decl{Name: join(f.Pkg, e.Name), Kind: "enum"})
		for _, v := range e.Values {
			out = append(out, Decl{Name: join(f.Pkg, v), Kind: "enumvalue"})
		}
	}
	for i := range f.Msgs {
		msgDecls(f.Pkg, &f.Msgs[i], &out)
	}
	for _, x := range f.Exts {
		out = append(out, Decl{Name: join(f.Pkg, x.Name), Kind: "extension", Num: x.Number})
	}
	for _, s := range f.Svcs {
		full := join(f.Pkg, s.Name)
		out = append(out, Decl{Name: full, Kind: "service"})
		for _, m := range s.Methods {
			out = append(out, Decl{Name: join(full, m), Kind: "method"})
		}
	}
	return out
}

// pkgPrefixes returns pkg and all its parents ("a.b.c", "a.b", "a").
func pkgPrefixes(pkg string) []string {
	var out []string
	for pkg != "" {
		out = append(out, pkg)
		if i := strings.LastIndexByte(pkg, '.'); i >= 0 {
			pkg = pkg[:i]
		} else {
			pkg = ""
		}
	}
	return out
}

// UType is a member of the type universe.
type UType struct {
	Name   string
	Kind   string // message, enum, extension
	File   int    // universe file that declares it
	ExtMsg string // extension: full name of the extended message
	ExtNum int32
}

// Universe is everything a scenario may register.
type Universe struct {
	Files []UFile
	Types []UType
}

// FilesState is the abstract state of a Files registry: which universe files are registered.
type FilesState uint64

func (s FilesState) Has(i int) bool { return s&(1<<uint(i)) != 0 }

// nameTable computes the registry's name table for state s:
// full name -> "pkg" or the kind of a top-level declaration.
func (u *Universe) nameTable(s FilesState) (names map[string]string, paths map[string]int) {
	names = map[string]string{}
	paths = map[string]int{}
	for i := range u.Files {
		if !s.Has(i) {
			continue
		}
		f := &u.Files[i]
		paths[f.Path] = i
		for _, p := range pkgPrefixes(f.Pkg) {
			names[p] = "pkg"
		}
		for _, d := range f.TopLevel() {
			names[d.Name] = d.Kind
		}
	}
	return
}

// RegisterFile returns whether registering file i in state s succeeds, and the new state.
// It succeeds iff it introduces no path conflict, no package-versus-declaration
// conflict and no declaration-name conflict; failure changes nothing.
func (u *Universe) RegisterFile(s FilesState, i int) (ok bool, ns FilesState) {
	f := &u.Files[i]
	names, paths := u.nameTable(s)
	if _, dup := paths[f.Path]; dup {
		return false, s
	}
	for _, p := range pkgPrefixes(f.Pkg) {
		if k, ok := names[p]; ok && k != "pkg" {
			return false, s // a package name collides with a declaration
		}
	}
	for _, d := range f.TopLevel() {
		if _, taken := names[d.Name]; taken {
			return false, s // collides with a declaration or with a package
		}
	}
	return true, s | 1<<uint(i)
}

// Find returns the kind and file of the declaration with this full name, or ("", -1).
func (u *Universe) Find(s FilesState, name string) (kind string, file int) {
	for i := range u.Files {
		if !s.Has(i) {
			continue
		}
		for _, d := range u.Files[i].AllDecls() {
			if d.Name == name {
				return d.Kind, i
			}
		}
	}
	return "", -1
}

// FileByPath returns the registered file with this path or -1.
func (u *Universe) FileByPath(s FilesState, path string) int {
	for i := range u.Files {
		if s.Has(i) && u.Files[i].Path == path {
			return i
		}
	}
	return -1
}

// FilesOf returns the sorted indexes of registered files (in package pkg if pkg != "*").
func (u *Universe) FilesOf(s FilesState, pkg string) []int {
	var out []int
	for i := range u.Files {
		if s.Has(i) && (pkg == "*" || u.Files[i].Pkg == pkg) {
			out = append(out, i)
		}
	}
	sort.Ints(out)
	return out
}

// AllNames returns every full name declared anywhere in the universe plus
// package names, sorted and de-duplicated (lookup probes).
func (u *Universe) AllNames() []string {
	set := map[string]bool{}
	for i := range u.Files {
		for _, p := range pkgPrefixes(u.Files[i].Pkg) {
			set[p] = true
		}
		for _, d := range u.Files[i].AllDecls() {
			set[d.Name] = true
		}
	}
	out := make([]string, 0, len(set))
	for n := range set {
		out = append(out, n)
	}
	sort.Strings(out)
	return out
}

// ---- Types registry ----

// TypesState: which universe types are registered.
type TypesState uint64

func (s TypesState) Has(i int) bool { return s&(1<<uint(i)) != 0 }

// RegisterType: succeeds iff the full name is free and, for an extension, the
// (extended message, number) pair is free.
func (u *Universe) RegisterType(s TypesState, i int) (ok bool, ns TypesState) {
	t := &u.Types[i]
	for j := range u.Types {
		if !s.Has(j) {
			continue
		}
		o := &u.Types[j]
		if o.Name == t.Name {
			return false, s
		}
		if t.Kind == "extension" && o.Kind == "extension" && o.ExtMsg == t.ExtMsg && o.ExtNum == t.ExtNum {
			return false, s
		}
	}
	return true, s | 1<<uint(i)
}

// FindType looks a name up expecting kind want: returns the type index, or -1
// (not found), or -2 (registered with another kind).
func (u *Universe) FindType(s TypesState, name, want string) int {
	for j := range u.Types {
		if s.Has(j) && u.Types[j].Name == name {
			if u.Types[j].Kind == want {
				return j
			}
			return -2
		}
	}
	return -1
}

func (u *Universe) FindExtByNumber(s TypesState, msg string, num int32) int {
	for j := range u.Types {
		if s.Has(j) && u.Types[j].Kind == "extension" && u.Types[j].ExtMsg == msg && u.Types[j].ExtNum == num {
			return j
		}
	}
	return -1
}

// TypesOf returns sorted indexes of registered types of a kind ("*" = any);
// for kind "ext-of:<msg>" the extensions of that message.
func (u *Universe) TypesOf(s TypesState, kind string) []int {
	var out []int
	for j := range u.Types {
		if !s.Has(j) {
			continue
		}
		t := &u.Types[j]
		switch {
		case kind == "*" || t.Kind == kind:
			out = append(out, j)
		case strings.HasPrefix(kind, "ext-of:") && t.Kind == "extension" && t.ExtMsg == kind[len("ext-of:"):]:
			out = append(out, j)
		}
	}
	return out
}
