#!/usr/bin/env python3
"""Regenerates /verif/MANIFEST.json. Edit the tables here, not the JSON."""
import json, sys

BUILT = sys.argv[1:] or []

NA = {
 "C01": "pure arithmetic on integers and byte slices (wire primitives); no schedule, clock, I/O or fault can change the verdict — input generation only, which is not simulation",
 "C02": "pure function of a byte string (wire field parser grammar); nothing for a scheduler or fault injector to choose",
 "C03": "binary round-trip is a pure function of (message, options); map order does not affect the decoded value",
 "C04": "Size = len(Marshal) is a pure input property; the stateful side of the size cache is claimed as C16",
 "C06": "decoding totality / agreement with validation is a pure function of (bytes, type)",
 "C07": "Merge = concatenated decoding is a pure function of (a, b)",
 "C08": "fast path vs reflection path is a differential over inputs and build tags; a build tag is not a runtime choice a simulator could make",
 "C09": "unknown-field preservation is a pure function of (bytes, schema pair)",
 "C10": "required-field checks are a pure function of the message tree (lazy-vs-eager agreement of the verdict is checked inside C17)",
 "C13": "UTF-8 enforcement is a pure function of (bytes, field position)",
 "C20": "protojson round-trip: pure text codec; detrand spacing is a per-binary constant, not a runtime choice",
 "C21": "protojson speaks exactly JSON: pure text codec property over inputs",
 "C22": "JSON scalar decoding: pure function of the input text",
 "C23": "well-known-type JSON forms: pure function of the input",
 "C24": "prototext round-trip: pure text codec over inputs",
 "C25": "text string literal escaping: pure function of the bytes",
 "C26": "JSON/text decoder totality and uniqueness: pure function of the input text",
 "C29": "API flavors interchangeable: differential over inputs and generated programs, no runtime nondeterminism involved",
 "C30": "Equal is an equivalence: pure function of pairs/triples of messages",
 "C31": "typed nil messages: pure, quantified over the finite set of linked types",
 "C32": "protorange traversal: pure; where a callback returns Break/Terminate is an argument, not an interruption chosen by the environment",
 "C34": "descriptor proto <-> descriptor conversion: pure function of a descriptor proto",
 "C35": "descriptor validation totality/strictness: pure function of a descriptor proto",
 "C36": "descriptor view consistency: pure function of a descriptor (their lazy initialisation under concurrency is C19, which uses an accessor walk only as its observation function)",
 "C37": "compact builder vs protodesc: pure differential over descriptor protos",
 "C38": "editions feature resolution: pure function of the schema",
 "C39": "textual default values round-trip: pure function of the descriptor",
 "C41": "generated code compiles and is faithful: program generation and compilation, pure in the schema",
 "C42": "derived Go identifiers valid and unique: pure function of the schema",
 "C43": "Timestamp/Duration helpers: pure value conversions (timestamppb.Now is not part of the property)",
 "C44": "FieldMask path-set algebra: pure function of the path sets",
 "C45": "Struct/Value/Any conversions: pure value conversions",
 "C46": "legacy messages behave like generated ones: differential over types and inputs (their first-use caches are covered by C19)",
 "C47": "MessageSet encoding: pure codec, reachable only through a build tag",
}

REFL = """Seeded histories are applied in lock-step to an abstract message model (written against the protoreflect contract, sharing no code with internal/impl or dynamicpb) and to the real message in every flavor (open proto2/proto3/editions, hybrid, opaque with more than 32 presence bits, extension-bearing; generated or dynamicpb). Exclusive mutation phases alternate with phases in which 1-4 clients issue non-mutating calls concurrently under a seeded scheduler (and, in the race build, the race detector: obtaining a read-only view must not write). After every step the full observation (Has, Get incl. defaults, lists, maps, nested messages, oneof selection, unknown fields, extensions, Range) is compared with the model; """

CHECKS = {
 "C27": dict(level="fault_enumeration", ref="DESIGN.md section 4 (C27)",
   text="Every truncation point of every generated stream is executed (exhaustive torn-tail enumeration per stream) against a list-of-frames reference model, crossed with seeded reader kinds, bufio sizes, chunkings, MaxSize values, injected reader errors, failing writers and a scheduled writer/reader pair over a blocking pipe with a crashing writer. The fault space that decides this property (where the stream ends, how the reader delivers it) is enumerated or densely sampled; messages are seeded.",
   note="Trusts the harness's reader/writer stubs to be conforming io.Reader/io.ByteReader/io.Writer implementations and proto.Equal/proto.Size as comparison tools; frame geometry is recomputed independently with protowire.",
   technique="deterministic simulation: seeded stream/reader/fault scenarios with exhaustive truncation-point enumeration, checked against a list-of-frames model"),
 "C18": dict(level="exploration", ref="DESIGN.md section 4 (C18)",
   text="Seeded search over interleavings of 2-4 reader clients on a shared lazily decoded message: every atomic/lock operation of the real code is a pre-emption point decided by a seeded scheduler (random walk, PCT, site-biased), run under the race detector with a scheduler hand-off that is invisible to it. Checked per run: single instance per lazy field across all clients and access routes, every result equal to the same script run sequentially on a private replica, no panic, no data race, no deadlock/livelock.",
   note="Sequentially consistent interleavings at synchronisation-operation granularity plus happens-before race detection; sampling, not enumeration. Shims and runtime overlay trusted (see assumptions in evidence).",
   technique="deterministic simulation: seeded schedule search over real code with race detection, sequential-replica oracle, replayable tapes"),
 "C19": dict(level="exploration", ref="DESIGN.md section 4 (C19)",
   text="Seeded search over interleavings of 2-4 clients making first use of never-used lazily initialised objects, under the race detector: in-process on fresh copies (compact-builder file descriptors over a local registry, MessageInfo, ExtensionInfo, dynamicpb.Types, registries swapped into GlobalFiles/GlobalTypes) and in fresh OS processes for the process-global generated types, descriptors, legacy wrappers and caches. Observations of every client (descriptor renderings, lookup-table consistency, instance identity, codec and reflection behaviour) must equal the sequential run; no race, panic or deadlock.",
   note="Sampling of schedules; first use of an object can be explored once per fresh copy or process. Shims, runtime overlay and the scheduler are trusted; sequential semantics are taken as the reference.",
   technique="deterministic simulation: seeded schedule search over first-use paths of fresh objects and fresh processes, race detection, sequential-run oracle"),
 "C14": dict(level="exploration", ref="DESIGN.md section 4 (C14)",
   text="Seeded histories over message slots and harness-owned buffers in which the fault is the owner reusing its memory at a later, seeded instant: the input buffer of a completed (lazy or eager) Unmarshal is overwritten or reused for the next input, the source of a Clone/Merge is mutated in place, a bufio.Reader that delivered a protodelim frame goes on reading. Expected content is tracked from private copies only; every observation and the final state compare deterministic bytes and Equal, and an address-range walk rejects any byte slice of a message that overlaps a caller-owned buffer or another slot. Generated, opaque/lazy, extension-bearing and dynamicpb messages.",
   note="Sampling of histories and fault instants. Deterministic bytes are taken as content identity; lazy buffers are observed only through their effects (content after scribble), not by address.",
   technique="deterministic simulation: seeded operation/fault histories (buffer scribble, owner mutation, reader reuse) against a private-copy reference, plus address-overlap invariant"),
 "C17": dict(level="exploration", ref="DESIGN.md section 4 (C17)",
   text="Seeded inputs (valid, legal non-minimal, corrupt inside a nested preferably lazy submessage) are decoded lazily and eagerly; verdicts must agree, then a seeded history of reads and writes (getters, reflection, Size/Marshal, JSON/text, setters and clearers incl. generated ones, Mutable, Merge into/out of, Unmarshal with Merge with and without NoLazyDecoding, failing re-decodes, Reset, Clone-and-continue, UseCachedSize pairs, scribbling the original input) is applied to both in lock-step with every result and, at seeded points and at the end, Equal / deterministic bytes / CheckInitialized / JSON / text compared. Panics at any access are violations. The searched dimension is when deferred decoding happens relative to the other operations and faults.",
   note="Sampling of inputs and histories; no concurrency in this check (C18 covers shared readers). Size is exempt while a non-minimal encoding is still undecoded (documented exception). Eager decoding is the reference.",
   technique="deterministic simulation: seeded operation/fault histories applied in lock-step to a lazily and an eagerly decoded twin, result-by-result comparison"),
 "C33": dict(level="exploration", ref="DESIGN.md section 4 (C33)",
   text="Seeded universes of small files over a deliberately tiny name space make every conflict class frequent. Three modes: sequential histories on local Files/Types registries compared operation by operation with an abstract name-table model written from the documentation, with a full observation compared before/after every failed registration; exclusive registration phases alternating with 2-4 concurrent Find/Range/Num clients under the race detector; and 2-4 clients issuing all operations concurrently, under seeded schedules, on fresh registries swapped into GlobalFiles/GlobalTypes, whose recorded history (invoke/return stamped with scheduler event sequence numbers) is checked for linearizability against the model with porcupine.",
   note="Sampling of universes, histories and schedules; histories <= 30 operations; porcupine time-outs are counted as inconclusive, never reported. The model is trusted; universe files are restricted to schemas protodesc accepts.",
   technique="deterministic simulation: seeded histories vs an executable name-table model; concurrent histories under a seeded scheduler checked for linearizability with porcupine"),
 "C16": dict(level="exploration", ref="DESIGN.md section 4 (C16)",
   text="Seeded histories alternate read phases, in which 1-3 clients concurrently call Size / Marshal / MarshalAppend / deterministic Marshal / UseCachedSize pairs (within their contract) / getters / Clone / Equal on a nested message and its submessages (all of which fill size caches), with exclusive mutation phases (scalar sets, clears, submessage replacement, in-place mutation of list and map element messages, appends, truncation, unknown-field appends, Merge). The mutation log is the model: before each read phase a twin is rebuilt by replaying the log into a never-sized message; every Marshal result must decode to that twin, deterministic bytes must be identical, Size must agree, and no size-mismatch error may occur. Read phases run under the seeded scheduler and (in the race build) the race detector.",
   note="Sampling of histories and schedules. Concurrent mutation is out of scope by the property's own wording; UseCachedSize is exercised only inside its documented contract.",
   technique="deterministic simulation: seeded mutate/size/marshal histories with scheduled concurrent read phases, checked against a mutation-log reference model"),
 "C15": dict(level="exploration", ref="DESIGN.md section 4 (C15)",
   text="Seeded histories (sets, clears, generated setters, oneof switches, list/map edits, extension and unknown-field writes, lazy/eager/merging decodes, decodes that fail midway on truncated or corrupt input, partial expansion of lazily held content, Marshal) end in an erasing operation: Unmarshal without Merge (lazy or eager), proto.Reset, the generated Reset method, or reflection-based reset. Every buffer the message was ever decoded from is then overwritten and the message is compared with a fresh one: Equal, deterministic bytes, and a walk over Has / WhichOneof / GetUnknown / extension set. The searched dimension is where failed decodes and lazy expansions fall in the history.",
   note="Sampling of histories. Reading or editing a message after a decode that failed midway is not part of the property (its state is unspecified); such accesses run protected and panics there are counted, not reported.",
   technique="deterministic simulation: seeded operation histories with injected failed decodes and buffer scribbles, compared against a fresh-message reference"),
 "C05": dict(level="exploration", ref="DESIGN.md section 4 (C05)",
   text="Decides the first sentence of the property, and the second over the same construction histories (variants seen to encode identically must be Equal in both argument orders, also two untouched lazily decoded twins). The nondeterminism a marshal can see is put under the simulator's control: Go map hash seeds and iteration offsets (runtime seam, re-seeded before every marshal), construction history, lazy state, and process restarts. One seeded content is realised as 10-16 messages through different histories (other map hash seeds, Clone, Merge, eager / lazy-unexpanded / lazy-expanded decode, decode from a legal non-minimal encoding, field-by-field rebuild in shuffled order with set-clear-set, delete-reinsert and grow-past-8-then-shrink detours, dynamicpb variants) and marshalled with Deterministic under several map seeds and, for a share of scenarios, in re-executions of the same binary. All encodings within one concrete type must be byte-identical.",
   note="The converse clause (identical deterministic bytes imply proto.Equal) is checked over the same construction histories (all variants of one content, once seen to encode identically, must be Equal in both argument orders); arbitrary unrelated input pairs with colliding encodings are not searched for. Sampling of contents and histories; a divergence that does not replay would mean nondeterminism from outside the seams and is itself reported.",
   technique="deterministic simulation: seeded construction histories, seeded Go map iteration order and process restarts; byte-equality oracle within each concrete type"),
 "C40": dict(level="exploration", ref="DESIGN.md section 4 (C40)",
   text="Seeded CodeGeneratorRequests over the ~100 linked files (1-4 files to generate, dependencies in topological order, seeded parameter strings) are run in-process the way protoc-gen-go's main does under 8 seeds of the Go map iteration order (runtime seam), once with file_to_generate permuted, and 2-3 times through the real protoc-gen-go binary built from the working tree with the same seam, each in a fresh process with a different process-wide map seed (request on stdin, response from stdout). Responses must be byte-identical; under permutation the set of (name, content) pairs must be identical.",
   note="Schemas are limited to the linked files (no random-schema generator). Requests that protogen rejects produce no response and are outside the property. A divergence that does not replay is itself reported.",
   technique="deterministic simulation: seeded Go map iteration order and process restarts around the real generator and the real plugin binary; byte-equality oracle"),
 "C28": dict(level="exploration", ref="DESIGN.md section 4 (C28, C11, C12)",
   text=REFL + "all aspects are reported, plus: writes through read-only empty composites must panic.",
   note="History refinement against a trusted model; the only genuinely schedule-dependent content is the concurrent read phases and race detection (no I/O, time or crash faults exist for this property). Sampling.",
   technique="deterministic simulation: seeded operation histories with scheduled concurrent read phases, refinement against an abstract message model"),
 "C11": dict(level="exploration", ref="DESIGN.md section 4 (C28, C11, C12)",
   text=REFL + "this check reports presence aspects: Has vs model presence, presence across binary/JSON/text round trips, nothing unpopulated (no implicit-presence zero) in the encoding; it includes a per-field sweep that reaches every presence-bitmap word.",
   note="Same machinery as C28 with a presence-heavy operation mix; value/Range/unknown mismatches are left to C28. For editions the resolved presence feature is read from the descriptor. Sampling.",
   technique="deterministic simulation: seeded set/clear/round-trip histories with scheduled concurrent read phases, refinement against an abstract presence model"),
 "C12": dict(level="exploration", ref="DESIGN.md section 4 (C28, C11, C12)",
   text=REFL + "this check reports oneof aspects: at most one member populated, WhichOneof names it (Set/Mutable/Clear, Merge, binary input naming several members: last wins, round trips), and JSON/text input naming two members is rejected.",
   note="Same machinery as C28 with a oneof-heavy operation mix; other mismatches are left to C28/C11. Sampling.",
   technique="deterministic simulation: seeded oneof operation histories with scheduled concurrent read phases, refinement against an abstract message model"),
}

def main():
    built = [c for c in CHECKS if c in BUILT]
    checks = []
    for pid in sorted(built):
        c = CHECKS[pid]
        checks.append({
            "property_id": pid,
            "quick_cmd": f"./check {pid} quick",
            "thorough_cmd": f"./check {pid} thorough",
            "evidence_file": f"/verif/evidence/{pid}.json",
            "replay_cmd_template": f"./check {pid} --replay {{path}}",
            "engine": "pbsim",
            "level_claimed": {"category": c["level"], "text": c["text"], "design_ref": c["ref"]},
            "level_note": c["note"],
            "technique": c["technique"],
        })
    na = [{"property_id": k, "reason": v} for k, v in sorted(NA.items())]
    allp = [json.loads(l)["id"] for l in open("/verif/properties.jsonl")]
    for pid in allp:
        if pid not in NA and pid not in built:
            na.append({"property_id": pid, "reason": "in scope for this technique (see DESIGN.md section 4) but its check is not built yet, so it is not claimed"})
    na.sort(key=lambda d: d["property_id"])
    m = {
        "version": 1,
        "setup_cmd": "./check setup",
        "hooks": {
            "guard": "pbsim-overlay (no source change in /repo: instrumentation is applied at check time with go build -overlay)",
            "enable": "./check <ID> quick|thorough rewrites the imports of sync and sync/atomic in a copy of every non-test file of /repo's working tree, maps the shim packages into google.golang.org/protobuf/internal/ and patches six GOROOT runtime files (map hash seeds and iteration offsets) and adds one, all through one go build -overlay file under /verif/.work",
            "baseline_off_cmd": "for m in $(cat /w/out/gomods.txt); do MF=$(cd /repo/$m && . /w/out/goenv.sh && gomodflag); (cd /repo/$m && go test $MF -json -vet=off -count=1 -timeout 25m ./...); done",
            "source_commits": [],
            "add_only": True,
        },
        "engines": [{
            "name": "pbsim",
            "path": "/verif/pbsim",
            "serves_properties": sorted(built),
            "kind_free_text": "deterministic simulator for a Go library: seeded scheduler over real goroutines (race-detector-invisible turn hand-off), sync/atomic shims via build overlay, seeded Go map iteration via runtime overlay, simulated stream endpoints, fault injection, out-of-process shrinking and replay",
        }],
        "checks": checks,
        "not_applicable": na,
        "notes": "Technique family: deterministic simulation with fault injection. Properties that are pure functions of their inputs are listed under not_applicable with the reason; see DESIGN.md sections 1 and 5. Exit codes of every check: 0 held, 1 violation (VIOLATION line + replay file under /verif/replays), 2 infrastructure trouble.",
    }
    json.dump(m, open("/verif/MANIFEST.json", "w"), indent=1)
    print("MANIFEST.json:", len(checks), "checks,", len(na), "not applicable")

main()
